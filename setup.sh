#!/bin/sh
# Builds the framework offline from files on disk only (both worker flavours, so that
# the checks only re-link what changed under /repo).
set -e
cd "$(dirname "$0")"
export GOFLAGS=-mod=mod GOPROXY=off
unset GOSUMDB GOTOOLCHAIN
python3 - <<'PY'
import importlib.util, importlib.machinery, os
loader = importlib.machinery.SourceFileLoader("drv", os.path.join(os.getcwd(), "check"))
spec = importlib.util.spec_from_loader("drv", loader)
m = importlib.util.module_from_spec(spec)
loader.exec_module(m)
m.prepare_module()
print("built", m.build(False)[0])
print("built", m.build(True)[0])
PY
