#!/usr/bin/env python3
"""Regenerates MANIFEST.json from lib/propcfg.py (single source of truth for the driver)."""
import json, os, subprocess, sys
V = os.path.dirname(os.path.dirname(os.path.abspath(__file__)))
sys.path.insert(0, os.path.join(V, "lib"))
from propcfg import PROPS, NOT_APPLICABLE, HOOK_COMMITS

checks = []
for pid in sorted(PROPS):
    c = PROPS[pid]
    checks.append({
        "property_id": pid,
        "quick_cmd": "./check %s --tier quick" % pid,
        "thorough_cmd": "./check %s --tier thorough" % pid,
        "evidence_file": "/verif/evidence/%s.json" % pid,
        "replay_cmd_template": "./check %s --replay {path}" % pid,
        "engine": "vworker",
        "level_claimed": {"category": c.get("level", "exploration"), "text": c["level_text"], "design_ref": c.get("design_ref", "")},
        "level_note": c["level_note"],
        "technique": c["technique"],
    })
m = {
    "version": 1,
    "setup_cmd": "./setup.sh",
    "hooks": {
        "guard": "verif",
        "enable": "go build -tags verif (the harness module replaces github.com/ipni/go-libipni with /repo)",
        "baseline_off_cmd": "cd /repo && GOFLAGS=-mod=mod GOPROXY=off go test -json -vet=off -count=1 -timeout 25m ./...",
        "source_commits": HOOK_COMMITS,
        "add_only": True,
    },
    "engines": [{"name": "vworker", "path": "/verif/harness", "serves_properties": sorted(PROPS),
                 "kind_free_text": "Go worker (one process per shard) running the real library under reference-model monitors, panic/allocation/hang guards, the race detector and porcupine; python driver ./check aggregates, classifies against known_findings.json and writes evidence"}],
    "checks": checks,
    "not_applicable": [{"property_id": p, "reason": r} for p, r in sorted(NOT_APPLICABLE.items()) if p not in PROPS],
    "notes": "Technique family: runtime monitoring and sanitizers. See DESIGN.md. Exit codes of ./check: 0 held, 1 violation, 2 inconclusive.",
}
json.dump(m, open(os.path.join(V, "MANIFEST.json"), "w"), indent=1)
print("MANIFEST.json: %d checks, %d not_applicable" % (len(checks), len(m["not_applicable"])))
