#!/bin/bash
# usage: tools/confirm_seed.sh <seedout dir> <name>     e.g. /tmp/seed/C11/seedout/1 C11-1
# Confirms a sub-agent's seeded change in a fresh scratch worktree: the demonstration passes on the
# unchanged code and fails with the change; the existing suite (no demo) still passes with the change.
# On success stores it as /verif/seeded/<name>/ and prints CONFIRMED.
set -u
d=$(realpath "$1"); name=$2
export GOFLAGS=-mod=mod GOPROXY=off
wt=/tmp/vconf.$$
git -C /repo worktree add -q --detach "$wt" HEAD || exit 9
trap 'git -C /repo worktree remove --force "$wt"' EXIT
demo_path=$(python3 -c "import json;print(json.load(open('$d/meta.json'))['demo_path'])")
demo_cmd=$(python3 -c "import json;print(json.load(open('$d/meta.json'))['demo_cmd'])")
demo_cmd=$(echo "$demo_cmd" | grep -oE "go test [^(;&]*" | head -1)
log=/verif/run/confirm-$name.log; mkdir -p /verif/run; : > $log
cp "$d/demo_test.go" "$wt/$demo_path"
echo "## demo on unchanged: $demo_cmd" >> $log
(cd $wt && eval "$demo_cmd") >> $log 2>&1; r0=$?
# a seed written against an older tree (a later fix: commit touched the same lines) comes with a rebased patch
pf="$d/patch.diff"; [ -f "$d/patch.rebased.diff" ] && pf="$d/patch.rebased.diff"
git -C $wt apply "$pf" || { echo "PATCH DOES NOT APPLY"; exit 8; }
echo "## demo with change" >> $log
(cd $wt && eval "$demo_cmd") >> $log 2>&1; r1=$?
rm -f "$wt/$demo_path"
echo "## existing suite with change" >> $log
(cd $wt && go test -count=1 -vet=off ./... ) >> $log 2>&1; r2=$?
echo "$name: demo_unchanged_exit=$r0 demo_changed_exit=$r1 suite_changed_exit=$r2"
if [ $r0 -eq 0 ] && [ $r1 -ne 0 ] && [ $r2 -eq 0 ]; then
  mkdir -p /verif/seeded/$name
  cp "$d/patch.diff" "$d/demo_test.go" /verif/seeded/$name/
  [ -f "$d/patch.rebased.diff" ] && cp "$d/patch.rebased.diff" /verif/seeded/$name/
  python3 - "$d/meta.json" /verif/seeded/$name/meta.json "$demo_cmd" <<'PY'
import json,sys
m=json.load(open(sys.argv[1]))
m['confirmed']={'demo_on_unchanged':'pass','demo_with_change':'fail','existing_suite_with_change':'pass (go test -count=1 -vet=off ./...)','demo_cmd_run':sys.argv[3],'how':'tools/confirm_seed.sh in a fresh scratch worktree of /repo HEAD'}
json.dump(m,open(sys.argv[2],'w'),indent=1)
PY
  echo "CONFIRMED $name"
else
  echo "NOT CONFIRMED $name (see $log)"; tail -20 $log
fi
