#!/usr/bin/env python3
"""Prompt for a further seeding round: the base prompt plus the titles of the ideas already used for the property."""
import json, sys, glob, subprocess
pid = sys.argv[1]
base = subprocess.check_output([sys.executable, '/verif/tools/agent_prompt.py', pid], text=True)
titles = []
for f in sorted(glob.glob('/verif/seeded/%s-*/meta.json' % pid)) + sorted(glob.glob('/tmp/seedout/%s*/*/meta.json' % pid)):
    try:
        t = json.load(open(f)).get('title')
    except Exception:
        continue
    if t and t not in titles:
        titles.append(t)
print(base)
print("\nIMPORTANT — these ideas have ALREADY been tried for this property; do NOT reuse them or close variants, find two genuinely different ways to break the property (other clauses, other mechanisms, other code sites, other configurations of the quantifier):")
for t in titles:
    print(" - " + t)
print("\nNote: calls to verifPoint(...) in the source are inert instrumentation (no-ops without a build tag); leave them alone and do not build your change around them. Files named verif_*.go are part of that instrumentation: ignore them. Line numbers in the property's anchors may be off because the files have been edited since; go by function names. Where the procedure mentions `git stash`, do NOT use it: save your diff to a file and revert with `git checkout -- .`. If, while working, you notice behaviour of the UNCHANGED library that itself seems to violate the property, mention it at the end of your report (do not build a seeded change on it).")
