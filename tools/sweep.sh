#!/bin/bash
# usage: tools/sweep.sh <tier> <seed> [<seed>...]   — runs every claimed check once per seed, prints non-HELD ones
tier=$1; shift
cd "$(dirname "$(readlink -f "$0")")/.."
for seed in "$@"; do
  for p in $(python3 -c "import json;print(' '.join(c['property_id'] for c in json.load(open('MANIFEST.json'))['checks']))"); do
    t0=$(date +%s)
    out=$(VERIF_SEED=$seed ./check $p --tier $tier 2>&1); rc=$?
    last=$(echo "$out" | tail -1)
    echo "seed=$seed rc=$rc $(( $(date +%s) - t0 ))s $last"
    if [ $rc -ne 0 ]; then echo "$out" | grep -E "VIOLATION|INCONCLUSIVE|key=" | head -6; fi
  done
done
