#!/bin/bash
# usage: tools/try_seed.sh <patch.diff> <PROP> [<PROP>...]
# Applies a seeded change to a scratch worktree of /repo (never to /repo itself), runs the
# given checks against it, prints their verdict lines and removes the worktree.
set -u
patch=$(realpath "$1"); shift
wt=/tmp/vtry.$$
git -C /repo worktree add -q --detach "$wt" HEAD || exit 9
tag=$(python3 -c "import hashlib,os,sys;print(hashlib.sha1(os.path.realpath(sys.argv[1]).encode()).hexdigest()[:8])" "$wt")
vdir="$(dirname "$(readlink -f "$0")")/.."
trap 'git -C /repo worktree remove --force "$wt"; rm -rf "$vdir"/run/alt-$tag "$vdir"/bin/alt-$tag' EXIT
if ! git -C "$wt" apply "$patch" 2>/dev/null; then
  # hooks and fixes committed after the seed was written moved the context: retry with fuzz
  if ! (cd "$wt" && patch -p1 --fuzz=3 -s < "$patch"); then echo "PATCH DOES NOT APPLY"; exit 8; fi
  echo "NOTE: patch applied with fuzz (context moved since the seed was written)"
fi
rc=0
for p in "$@"; do
  out=$(cd "$(dirname "$(readlink -f "$0")")/.." && VERIF_REPO="$wt" ./check "$p" --tier "${TIER:-quick}" 2>&1); c=$?
  echo "$out" | grep -E "VIOLATION|KNOWN-FINDING|HELD|VIOLATED|INCONCLUSIVE|BUILD FAILED|  key=" | head -${LINES_MAX:-12}
  echo "== $p exit=$c"
  [ $c -ne 0 ] && rc=1
done
exit $rc
