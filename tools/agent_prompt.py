#!/usr/bin/env python3
"""Prints the prompt given to a mutation-seeding sub-agent for one property (property text only)."""
import json, sys
pid = sys.argv[1]
wt = "/tmp/seed/%s" % pid
for l in open('/verif/properties.jsonl'):
    p = json.loads(l)
    if p['id'] == pid:
        break
print(f"""You are helping to evaluate a verification effort for the Go library ipni/go-libipni. You have your own scratch git worktree of the library at {wt} (work ONLY inside that directory; never touch /repo or /verif, and do not read anything under /verif).

Your job: produce TWO independent, realistic code changes ("seeded bugs") to the library, each of which BREAKS the semantic property below while the library still compiles and its existing test suite still passes. Each change should look like a plausible regression or a plausible "simplification/refactor gone wrong" a developer could make, not sabotage that ordinary use would expose at once: prefer changes that need something specific to manifest — a particular interleaving, a fault at a particular point, a multi-step sequence of operations, an unusual input or configuration, or two cooperating sites that each look fine alone. The two changes should break the property in DIFFERENT ways (different mechanism or different clause of the property).

PROPERTY {p['id']}: {p['title']}
Statement: {p['statement']}
Quantified over: {p['quantifier']['text']}
Code that is meant to make it hold: {json.dumps(p['anchors']['mechanism'])}
Relevant files: {', '.join(p['anchors']['files'])}

Environment notes (important):
- Every shell command needs: export GOFLAGS=-mod=mod GOPROXY=off   (do NOT set GOSUMDB or GOTOOLCHAIN; there is no network).
- Run tests with e.g.: cd {wt} && go test -count=1 ./dagsync/... (the packages you touched and their dependants; the full suite is `go test -count=1 ./...`, about 1-2 minutes).
- Only edit non-test .go files of the library for the bug itself. Do not edit existing tests.

For each of the two changes (number them 1 and 2) deliver, under {wt}/seedout/<n>/ :
  - patch.diff : `git diff` of the library change only (relative to the worktree HEAD, applies with `git apply` at the repository root). Generate it with the demonstration file NOT included.
  - a demonstration: one new Go test file (give its intended path inside the repo in meta.json, e.g. dagsync/seed_demo_test.go; store a copy as {wt}/seedout/<n>/demo_test.go) that FAILS with the change applied and PASSES on the unchanged code. Keep it deterministic and reasonably fast (< 60 s). State the exact `go test` command.
  - meta.json : {{"property": "{p['id']}", "title": short title, "what_breaks": which clause of the property and how, "needs_to_manifest": what specific input/schedule/fault/sequence is needed, "demo_path": path in repo, "demo_cmd": the go test command, "existing_tests_cmd": what you ran to confirm the existing suite still passes}}

Procedure per change: make the edit; confirm `go build ./...` and the existing tests of affected packages pass (run them at least twice if concurrency is involved); write the demo test and confirm it fails with the change; `git stash` or revert the library edit and confirm the demo passes on the unchanged code; save the files; then `git checkout -- .` (and remove the demo test from the tree) before starting the second change so that the patches are independent. Leave the worktree clean at the end except for the seedout/ directory.

Notes: store the demo copy under seedout/<n>/ with the name demo_test.go.txt is NOT wanted — keep the name demo_test.go, but because seedout/ lies inside the module, run the full suite as `go test -count=1 $(go list ./... | grep -v seedout)`. Do not use `git stash` (stashes are shared between worktrees); revert with `git checkout -- .` after saving your diff to a file.

Finish with a brief report: for each change, one paragraph on what it does and why existing tests miss it.""")
