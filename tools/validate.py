#!/opt/veriftools/pyvenv/bin/python
import json, jsonschema, glob, sys
jsonschema.validate(json.load(open('/verif/MANIFEST.json')), json.load(open('/root/.vp/MANIFEST.schema.json')))
n=0
for f in glob.glob('/verif/evidence/*.json'):
    jsonschema.validate(json.load(open(f)), json.load(open('/root/.vp/EVIDENCE.schema.json'))); n+=1
print('manifest valid; %d evidence files valid' % n)
