#!/bin/bash
# Runs every confirmed seeded change under seeded/ against the quick check of its property (in scratch worktrees of
# /repo, never in /repo itself), JOBS at a time, and writes seeded/RESULTS.json.
#   patch.rebased.diff  used instead of patch.diff when a later fix: commit moved the lines
#   check_with          names the property whose check owns the effect (DESIGN.md §8.5 says why)
#   SUPERSEDED          the change no longer breaks the property on the current tree (a fix ended what it relied on)
cd "$(dirname "$(readlink -f "$0")")/.."
out=$PWD/seeded/RESULTS.json
work=$(mktemp -d)
# (an alternative-repository run needs the harness go.mod that a normal run generates)
[ -f harness/go.mod ] || ./check C20 >/dev/null 2>&1
one() {
  d=${1%/}; name=$(basename $d); prop=${name%%-*}; res=$2/$name.json
  if [ -f $d/SUPERSEDED ]; then
    printf ' "%s": {"property": "%s", "check_exit": "", "detected": null, "keys": "", "note": "superseded: %s"}' "$name" "$prop" "$(tr -d '"\n' < $d/SUPERSEDED)" > $res
    echo "$name superseded"; return
  fi
  patch=$d/patch.diff; [ -f $d/patch.rebased.diff ] && patch=$d/patch.rebased.diff
  note=""; runprop=$prop; [ -f $d/check_with ] && runprop=$(cat $d/check_with)
  log=$(tools/try_seed.sh $patch $runprop 2>&1)
  rc=$(echo "$log" | grep -oE "== $runprop exit=[0-9]+" | grep -oE "[0-9]+$")
  [ "$runprop" != "$prop" ] && note="run against $runprop"
  keys=$(echo "$log" | grep -oE "key=[^ ]+" | sort -u | head -6 | tr '\n' ' ' | tr -d '"\\')
  echo "$log" | grep -q "applied with fuzz" && note="$note patch applied with fuzz"
  echo "$log" | grep -q "DOES NOT APPLY" && note="patch no longer applies to the current tree"
  printf ' "%s": {"property": "%s", "check_exit": "%s", "detected": %s, "keys": "%s", "note": "%s"}' "$name" "$prop" "$rc" "$([ "$rc" = "1" ] && echo true || echo false)" "$keys" "$note" > $res
  echo "$name exit=$rc $keys $note"
}
export -f one
ls -d seeded/C*/ | sort -V | { if [ -n "${ONLY:-}" ]; then grep "seeded/$ONLY"; else cat; fi; } | xargs -P ${JOBS:-3} -I{} bash -c 'one {} '"$work"
{ echo "{"; first=1; for f in $(ls $work/*.json | sort -V); do [ $first -eq 0 ] && echo ","; first=0; cat $f; done; echo; echo "}"; } > $work/all
if [ -z "${ONLY:-}" ]; then mv $work/all $out; else cat $work/all; fi
rm -rf $work
