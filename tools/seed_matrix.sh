#!/bin/bash
# Runs every confirmed seeded change under /verif/seeded against the quick check of its property
# (in a scratch worktree, never in /repo) and writes /verif/seeded/RESULTS.json.
cd "$(dirname "$(readlink -f "$0")")/.."
out=$PWD/seeded/RESULTS.json
tmp=$(mktemp)
echo "{" > $tmp
first=1
for d in $(ls -d seeded/C*/ | sort); do
  name=$(basename $d); prop=${name%%-*}
  [ -n "${ONLY:-}" ] && [[ "$name" != $ONLY* ]] && continue
  patch=$d/patch.diff; [ -f $d/patch.rebased.diff ] && patch=$d/patch.rebased.diff
  note=""
  if [ -f $d/SUPERSEDED ]; then
    # the change no longer breaks the property on the current tree (a later fix: commit took away what it relied on)
    [ $first -eq 0 ] && echo "," >> $tmp; first=0
    printf ' "%s": {"property": "%s", "check_exit": "", "detected": null, "keys": "", "note": "superseded: %s"}' "$name" "$prop" "$(tr -d '"\n' < $d/SUPERSEDED)" >> $tmp
    echo "$name superseded"; continue
  fi
  # a seed that breaks its property through another property's territory is run against that check
  # (seeded/<name>/check_with names it; DESIGN.md §8.5 says why)
  runprop=$prop; [ -f $d/check_with ] && runprop=$(cat $d/check_with)
  log=$(tools/try_seed.sh $patch $runprop 2>&1)
  rc=$(echo "$log" | grep -oE "== $runprop exit=[0-9]+" | grep -oE "[0-9]+$")
  [ "$runprop" != "$prop" ] && note="run against $runprop"
  keys=$(echo "$log" | grep -oE "key=[^ ]+" | sort -u | head -6 | tr '\n' ' ')
  echo "$log" | grep -q "applied with fuzz" && note="$note patch applied with fuzz"
  echo "$log" | grep -q "DOES NOT APPLY" && note="patch no longer applies to the current tree"
  [ $first -eq 0 ] && echo "," >> $tmp; first=0
  printf ' "%s": {"property": "%s", "check_exit": "%s", "detected": %s, "keys": "%s", "note": "%s"}' "$name" "$prop" "$rc" "$([ "$rc" = "1" ] && echo true || echo false)" "$keys" "$note" >> $tmp
  echo "$name exit=$rc $keys $note"
done
echo "" >> $tmp; echo "}" >> $tmp
[ -z "${ONLY:-}" ] && mv $tmp $out || cat $tmp
