"""Per-property configuration of the driver: build flavour, sharding, observation floors,
and the rule text that goes into the evidence file."""

PROPS = {}

PROPS["C11"] = dict(
    race=False,
    shards={"quick": 8, "thorough": 16},
    level="exploration",
    rule=("roundtrip-exhaustive: every multiset of size 1..3 (quick) / 1..4 (thorough) over a 6-protocol pool "
          "(bitswap, gateway, 2 graphsync, 2 unknown) in every distinct construction order; roundtrip-sampled: seeded "
          "multisets of size 1..6 of freshly generated protocols; hostile: seeded mutants (bit flip, truncation, "
          "length-field tampering up to 2^63, splice, ...) of valid encodings, <=1024 bytes, decoded under panic and "
          "TotalAlloc guards and compared with an independent reference segmenter. Graphsync piece CIDs include identity CIDs of 14..37, 240..263 and 500..523 bytes (the sizes at which CBOR length prefixes grow). The bytes an encoding returned are overwritten by the caller: the next encoding and a decode of the kept copy must be unaffected. distinct_nontrivial counts distinct "
          "construction orders of >=2 protocols, distinct id-sequences of >=3 sampled protocols and distinct "
          "(mutation kind, decoded protocol list) pairs among ACCEPTED hostile inputs."),
    floors={"quick": {"decoded_into_a_zero_value_metadata": 10000, "hostile_accepted": 500, "hostile_rejected": 5000, "distinct": 500},
            "thorough": {"hostile_accepted": 20000, "hostile_rejected": 200000, "distinct": 5000}},
    max_counters=["max_alloc_per_case"],
    assumptions=["the reference segmenter in harness/props/c11.go is the format definition",
                 "TotalAlloc deltas are measured in a single-goroutine worker"],
)

PROPS["C11"].update(
    design_ref="DESIGN.md §4 C11",
    technique="runtime monitor: reference-model differential + panic/allocation guards over seeded and exhaustive inputs",
    level_text=("Exploration: the real encoder/decoder is driven with every protocol multiset up to size 4 in every order "
                "(exhaustive over a 6-element pool), seeded multisets up to size 6, and millions of hostile byte strings; an "
                "independent reference segmenter decides canonical form, and panic / TotalAlloc guards decide safety. "
                "Holds for the inputs generated, nothing more."),
    level_note=("Trusted: the reference segmenter and the harness's allocation bound (64 KiB + 1 KiB per input byte). Two recorded "
                "known findings (non-canonical graphsync CBOR accepted; dependency pre-allocation up to 2x32 MiB) are suppressed "
                "by classification key only."),
)

# properties not claimed yet (filled while the framework is being built)
NOT_APPLICABLE = {("C%02d" % i): "monitor not built yet (work in progress; see DESIGN.md for the plan)" for i in range(1, 21)}
HOOK_COMMITS = ["1fddc2d", "3ef5cae", "9dccd1c"]

PROPS["C12"] = dict(
    race=True,
    shards={"quick": 8, "thorough": 16},
    race_is_violation=True,
    level="exploration",
    design_ref="DESIGN.md §4 C12",
    technique="runtime monitor: round-trip / tamper oracles, in-memory reference index for the find workflow, race detector on concurrent callers",
    rule=("aes-roundtrip: seeded (payload length 0..4096, passphrase length 0..128) pairs incl. edge lengths; tamper: for seeded "
          "ciphertexts EVERY truncation length, a bit flip at EVERY byte, appended bytes and nonce lengths 0..24 through "
          "DecryptValueKey/DecryptMetadata/DecryptAES; valuekey: peer IDs of all key types (identity- and sha256-hashed) x context "
          "ids 0..64 incl. ones starting with a peer-ID; second-hash; concurrent callers under -race; find: small plaintext indexes "
          "loaded into an in-memory DHStoreAPI only through dhash functions, metadata-only and with pcache over a local HTTP source, "
          "with hostile extra value keys / garbled metadata. A passphrase buffer is overwritten in place with another passphrase of the same length and used again: it must stand for the new bytes (same output as from a fresh slice, the old passphrase refused). distinct_nontrivial = distinct (payload len, passphrase len), "
          "(key type, ctx len), (hash code, len) and find-configuration tuples."),
    floors={"quick": {"passphrase_buffers_reused_for_another_passphrase": 6000, "truncations": 5000, "bitflips": 5000, "find_nonempty_results": 100, "find_hostile_stores": 20, "find_via_dhstore_http": 20, "peerkind_identity": 100, "peerkind_sha256": 100},
            "thorough": {"truncations": 200000, "bitflips": 200000, "find_nonempty_results": 4000, "find_hostile_stores": 1000}},
    level_text=("Exploration: every decryption entry point is driven with every truncation and a flip at every byte of real "
                "ciphertexts and must fail closed without panicking; round trips, determinism and the value-key split are checked "
                "against the inputs; the reader-privacy find is compared with the plaintext index it was loaded from."),
    level_note="Trusted: Go's AES-GCM; the in-memory DHStoreAPI and HTTP provider source written for the harness.",
    assumptions=["race reports in go-libipni frames count as violations (deterministic, comparable encryption must be safe for concurrent callers)"],
)

PROPS["C20"] = dict(
    race=False,
    shards={"quick": 8, "thorough": 16},
    level="exploration",
    design_ref="DESIGN.md §4 C20",
    technique="runtime monitor: round-trip oracle on generated URLs, request path observed at a local server, helpers vs by-construction labels",
    rule=("url-roundtrip: seeded URLs = {http,https} x {IPv4, IPv6 (no zone, not v4-mapped), DNS name} x port {absent,0,1,80,443,65535,random} "
          "x paths over the full URL path character set (unreserved, sub-delims, space, '+', '%', %-escapes, '//', trailing '/', '?', '#', UTF-8), "
          "each parsed from its textual form; tls-forms: /http, /https, /tls/http multiaddrs; end-to-end: a real sync client is given "
          "FromURL(publisher URL) and the path it requests is observed at a local HTTP server; helpers: address lists generated from labelled "
          "templates (public/private/loopback/unspecified/localhost/dns x http/https/tls-http/other) with duplicates, nils, permutations. "
          "Address lists include zoned IPv6 addresses (/ip6zone/z/ip6/...) of every class over few zones and http/https directly after the host (no tcp component). A quarter of the URL cases also convert the form older publishers advertise (/httpath/<url.PathEscape(path)>) with ToURL and expect the same path and scheme; MultiaddrsEqual is compared with multiset equality on lists with repeated addresses over three addresses (including every address twice against other addresses twice). ToURL of every generated HTTP address keeps the host (IP or DNS name, no brackets around names), with and without a tcp component. distinct_nontrivial = distinct (scheme, host kind, port present, path character classes) tuples, (host kind, form), path classes seen end "
          "to end, and address-class multisets of size >=2."),
    floors={"quick": {"tourl_hosts_checked": 20000, "legacy_httpath_addresses": 8000, "repeated_address_lists_compared": 8000, "path_space": 500, "path_plus": 500, "path_pct": 500, "host_ip6": 2000, "host_dns": 2000, "e2e_requests": 200, "multiplicity_checked": 1000},
            "thorough": {"path_space": 20000, "path_plus": 20000, "host_ip6": 100000, "e2e_requests": 5000}},
    level_text=("Exploration: conversions are run on seeded URLs covering every host kind, port shape and path character class; the "
                "oracle is equality of scheme, hostname, port and decoded path, plus the path a real sync client actually requests. "
                "Helper functions are compared with labels known by construction."),
    level_note="Trusted: net/url's parsing of the generated URL text; the address-class labels of the generator templates.",
    assumptions=["IPv6 zones and IPv4-mapped IPv6 addresses are outside the claim and are not generated"],
)

PROPS["C17"] = dict(
    race=False,
    shards={"quick": 8, "thorough": 16},
    level="exploration",
    design_ref="DESIGN.md §4 C17",
    technique="runtime monitor: differential against an independent specification function of the IPNI expansion rules",
    rule=("seeded provider records: 0..4 chain-level and 0..3 contextual sets (override on/off, matching or not the looked-up context id) whose "
          "entries carry metadata nil / empty / equal to / different from the looked-up metadata, main provider present or absent in either list, "
          "metadata lists shorter / longer / nil relative to the provider lists; delivered through a fake source and (1 in 5) through the HTTP/JSON "
          "source; GetResults is compared, in order, with a 30-line specification function, or must return an error; never panic. "
          "A third of the cases expand the same cached record again with other metadata / another context id and then once more with the first arguments; one source list in 25 carries a null entry next to the record. In a quarter of the sets that list the provider itself it is listed twice. distinct_nontrivial = distinct record shapes (sequence of set kinds, main-provider positions, metadata kinds, mismatch kinds) with "
          "extended providers."),
    floors={"quick": {"repeated_lookups_with_other_arguments": 15000, "source_lists_with_a_null_entry": 1500, "shape_md-shorter": 500, "shape_md-longer": 500, "shape_md-nil": 500, "via_http_json": 1000, "expanded_results": 5000, "updated_in_place_then_refreshed": 2000, "distinct": 3000}},
    level_text=("Exploration: GetResults is executed on seeded records covering every clause of the expansion rules and every list-length "
                "mismatch a source can deliver, and compared with an independently written specification."),
    level_note="Trusted: the specification function c17Spec in harness/props/c17.go (written from the property statement and the IPNI spec).",
    assumptions=["records with two contextual sets for the same context id are not generated (which one wins is not stated)"],
)

PROPS["C18"] = dict(
    race=False,
    shards={"quick": 8, "thorough": 16},
    level="exploration",
    design_ref="DESIGN.md §4 C18",
    technique="runtime monitor: accept/reject oracle over all signer x named-provider pairs and located single-byte alterations of sealed envelopes",
    rule=("signer-matrix: EVERY ordered pair (signing identity, named provider) over a pool of 15 identities (Ed25519, secp256k1, ECDSA, RSA-2048), "
          "ingest and register request each, with seeded request fields: accepted iff signer == named, and then the fields read back equal those "
          "given; alterations: for seeded requests of every key type, bit flips located inside the public_key / payload_type / payload / signature "
          "fields of the envelope (found by parsing the protobuf) and at arbitrary bytes, skipped only when the independently parsed envelope is "
          "semantically identical; cross-feeding of ingest<->register bytes; an envelope with the ingest payload type sealed for another domain; "
          "generic mutants for panics. Request addresses are of the kinds providers register (tcp, /http, /https, /ws, quic-v1, DNS names, with a /p2p/ suffix). distinct_nontrivial = distinct (signer key type, named key type, same?) and (request, field, key type) tuples."),
    floors={"quick": {"requests_built_concurrently": 5000, "crafted_payloads_rejected": 800, "foreign_signer_pairs": 400, "alter_public_key": 1000, "alter_signature": 1000, "alter_payload": 1000, "cross_fed": 300}},
    level_text=("Exploration: the read functions are driven with every signer/named-provider pair of a 15-identity pool over all libp2p key "
                "types and with thousands of located alterations of real sealed requests; acceptance must coincide with 'unaltered and signed by "
                "the named provider'."),
    level_note="Trusted: libp2p's envelope protobuf (used to locate fields and to decide semantic identity of a mutant).",
)

PROPS["C05"] = dict(
    race=False,
    shards={"quick": 8, "thorough": 16},
    level="exploration",
    design_ref="DESIGN.md §4 C05",
    technique="runtime monitor: sign/verify oracle over generated ads, single-value and located envelope-byte mutations, exhaustive key-assignment sweep per ad",
    rule=("sign-verify-mutate: seeded ads (with/without previous link, real or no-entries link, removal flag, 0..4 addresses, 0..3 extended "
          "providers + main, override on/off) signed by identities of every libp2p key type, signer == provider or a separate publisher; verified "
          "directly and after dag-json and dag-cbor round trips; then EVERY applicable single-value mutation from the statement's list, two bit "
          "flips in each of the four fields of EVERY signature envelope (located by parsing the protobuf; semantically identical mutants "
          "skipped), and removal of the main provider from the list. key-assignment: for seeded ads with 2..3 extended-provider entries, ALL "
          "assignments of {ad signer, each entry's own key, a stranger} to the entries: valid iff every non-main entry is sealed by the identity "
          "it names and the main entry by the ad's signer. Sub-check removal-with-extended-providers: removal ads carrying extended providers whose entries are unsigned, garbage, signed for the non-removal ad, lacking the main provider, or sealed by the ad signer must not verify; library signing of such an ad must be refused or give a fully valid ad. One extended-provider section in ten lists no provider at all (it still carries the override flag, which has a mutation of its own). Every changed advertisement is also signed again with the library (it still carries the signatures made before the change) and must then verify with the signer. distinct_nontrivial = distinct (ad shape, signer key type) tuples."),
    floors={"quick": {"changed_ads_signed_again": 3000, "removal_ep_cases": 120, "assignments_invalid": 2000, "assignments_valid": 100, "mut_ep-identity": 200, "mut_previous-link-removed": 200, "env_public_key": 1500, "env_signature": 1500, "main_removed": 100}},
    level_text=("Exploration: real signing and verification over generated advertisements of every shape and key type; every single-value "
                "mutation the statement lists and located byte flips in every envelope must be rejected; the full assignment space of signing "
                "keys to extended-provider entries is enumerated per ad."),
    level_note="Trusted: libp2p's envelope protobuf and key implementations; the harness's notion of 'semantically identical envelope'.",
    assumptions=["simultaneous changes to neighbouring values are outside the claim and are not generated"],
)

PROPS["C13"] = dict(
    race=False,
    shards={"quick": 8, "thorough": 16},
    level="exploration",
    design_ref="DESIGN.md §4 C13",
    technique="runtime monitor: round-trip and typed-vs-generic differential over generated values and mutated encodings, panic guard",
    rule=("ad-roundtrip: all 2^7 combinations of (removal flag, previous link, no-entries sentinel, extended providers present, override, "
          "non-empty provider list, unusual strings) x seeded contents (0..5 addresses, empty/maximal context id and metadata), both codecs: "
          "decode(encode(v)) == v with optional parts kept absent/present, re-encoding stable, generic-prototype+Unwrap == typed, Store twice => "
          "same CID, load typed/generic == v; chunk-roundtrip: 0..50 multihashes of six hash functions with/without next link, same checks; "
          "hostile: seeded mutants of dag-json and dag-cbor encodings through BytesToAdvertisement/BytesToEntryChunk: error or re-encodable "
          "value, typed and generic paths agree, no panic. One address in six is a valid multiaddr in a non-canonical spelling (trailing slash, expanded IPv6, legacy /ipfs/) and must come back as written; one hostile input in 40 is a few bytes of white space or a lone token. One chunk in 500 has the 16384 entries providers really publish (over a megabyte as DAG-JSON). Every advertisement block is decoded twice, the first result changed in place in between, and a different block is decoded under the same CID argument: each decode goes by the bytes given. distinct_nontrivial = option-bit combinations, chunk shapes and (mutation kind, codec, "
          "type) among ACCEPTED hostile inputs."),
    floors={"quick": {"blocks_decoded_again_after_the_first_result_was_changed": 1200, "full_size_entry_chunks": 5, "hostile_blank_or_lone_token_inputs": 1200, "hostile_accepted": 300, "hostile_rejected": 10000, "distinct": 150}},
    level_text=("Exploration: the library's own encode/decode/store/load entry points are executed on every combination of optional parts and on "
                "tens of thousands of mutated encodings; oracles are value equality, CID equality, typed/generic agreement and absence of panics."),
    level_note="Trusted: go-ipld-prime's codecs as the reference for what 'encodes' means; the harness's equality (nil ~ empty).",
)

PROPS["C10"] = dict(
    race=False,
    shards={"quick": 8, "thorough": 16},
    level="exploration",
    design_ref="DESIGN.md §4 C10",
    technique="runtime monitor: round-trip oracle (CBOR/JSON, whole and piecewise readers), wire capture of the HTTP sender, panic/allocation guards on mutated encodings",
    rule=("roundtrip: seeded messages (CID v0/v1 of several codecs/hashes; 0..40 addresses that are valid multiaddrs incl. ones already carrying "
          "/p2p or /p2p-circuit, unknown-protocol-code byte strings, arbitrary bytes, empty; extra data 0..64 KiB; with/without OrigPeer) "
          "encoded to CBOR and JSON and decoded from whole, half-, one-byte- and data+EOF readers and from a truncation; array header 0x83/0x84; "
          "GetAddrs skips unknown protocols. http-sender: Send/SendJson to a local server, body decoded and compared with the message with "
          "/p2p/<publisher> encapsulated on every decodable address (unknown-protocol ones dropped), sender-level extra data; hostile: seeded "
          "mutants incl. CBOR length-header tampering up to 2^63: error or a message whose re-encoding decodes equal; TotalAlloc <= 4*len+3MiB; "
          "no panic. Sub-check crafted-lengths assembles messages by hand with each field's declared length at, just over and far over its cap, the declared bytes present or missing: within caps and complete decodes and re-encodes; over a cap is rejected without allocating for the declared length. Every message is also decoded from a buffer that is then overwritten and reused: the decoded message must not change. Sub-check pubsub-sender: 2..6 messages are published back to back through p2psender on a local gossip topic and only then read from a subscription of that topic: each must decode to the message sent, in order. distinct_nontrivial = distinct (address count, OrigPeer, big extra, CID version, unknown-proto present) tuples, sender "
          "configurations and (mutation kind, decoded shape) among ACCEPTED hostile inputs."),
    floors={"quick": {"pubsub_messages_read_back": 20, "crafted_cases": 50, "decoded_from_a_buffer_that_is_then_overwritten": 10000, "crafted_over_cap": 20, "crafted_within_caps_decoded": 12, "hostile_accepted": 300, "hostile_rejected": 10000, "msgs_with_unknown_protocol_addr": 500, "sent_json": 100, "sent_cbor": 100}},
    max_counters=["max_alloc_per_case"],
    level_text=("Exploration: the real encoder, decoder and HTTP sender are run on seeded messages and on tens of thousands of mutated encodings; "
                "equality, wire content, panic-freedom and an allocation bound derived from the decoder's field caps are the oracles."),
    level_note="Trusted: go-multiaddr for the reference /p2p encapsulation; the allocation bound 4*len+3MiB (one 2 MiB field cap + 8192-entry address table + slack).",
    assumptions=["the pubsub sender is exercised in C09's pubsub part, not here"],
)

PROPS["C19"] = dict(
    race=False,
    shards={"quick": 8, "thorough": 16},
    level="exploration",
    design_ref="DESIGN.md §4 C19",
    technique="runtime monitor: write-through-server / read-through-client differential over generated result lists, keys, Accept headers and paths",
    rule=("a local HTTP server whose handler is the glue a real indexer uses (rwriter.New with WithPreferJson, NewProviderResponseWriter, "
          "WriteProviderResult..., Close, API errors written with their status) is queried (a) with the real find client (Find and FindBatch) "
          "for seeded result lists of 0..20 results (nil/empty/binary context ids and metadata, providers with 0..3 addresses) and (b) with "
          "raw requests over key forms {base58 multihash, hex multihash, CIDv0, CIDv1 in base32/base58/base16, bad keys, bad resource types} x 14 "
          "Accept header shapes {none, json, ndjson, */*, q-lists, two headers, upper case, unsupported, malformed} x 4 path prefixes: same "
          "results in order, NDJSON one result per line, empty set => 404 / empty response, bad requests => 4xx API error that decodes with "
          "its status; apierror Encode/Decode/FromResponse round trips. Accept headers include malformed entries on or next to a supported type (must be refused all the same). distinct_nontrivial = distinct (accept kind, key kind, empty?) and list-size tuples."),
    floors={"quick": {"ndjson_responses": 300, "json_responses": 1000, "empty_sets": 200, "rejected_accept": 300, "rejected_key": 300, "key_hex": 100, "key_cidv0": 100, "large_result_sets": 20}},
    level_text=("Exploration: the real writer and the real client talk over a local socket for thousands of generated result sets and request "
                "shapes; the oracle is equality with what was written plus the status-code contract."),
    level_note="Trusted: the handler glue in harness/props/c19.go mirrors how an indexer uses the writer (assumption); Go's net/http.",
    assumptions=["a hex key whose characters all lie in the base58 alphabet may legitimately be read as base58 (either outcome accepted)"],
)

PROPS["C03"] = dict(
    race=False,
    shards={"quick": 8, "thorough": 16},
    level="exploration",
    design_ref="DESIGN.md §1 C03",
    technique="runtime monitor: accept/reject oracle on field- and byte-altered signed heads, end-to-end through a fault-injecting publisher front with request log",
    rule=("codec-fields: seeded (root CID v0/v1, topic none/short/long/non-ASCII, signer of every libp2p key type) heads; 10 field alterations "
          "(other CID, topic changed/removed, key of another identity, key/signature byte flipped, signature removed, key+signature swapped from "
          "another valid head, signature by the same key over another CID, re-signed by another identity), passed through the wire format; "
          "an altered head must not validate to the original signer. codec-bytes: EVERY byte of the dag-json encoding altered; semantically "
          "identical mutants (same CID, topic, parsed key, signature) skipped. end-to-end: a real Subscriber syncs a real Publisher behind a "
          "front that replaces the head response (plain HTTP and libp2p-HTTP discovery mounts; publisher ID given as AddrInfo.ID or only as "
          "/p2p/<id> in the address): rejected, no block request after the head request, no hook, no store write, latest-synced unchanged; "
          "genuine heads sync; and every head the publisher serves validates to its own ID, root and topic. End-to-end cases also ask for another identity than the one named by a /p2p/ component of the address, and for another identity at an address at which the subscriber has synced the real publisher before. Signature re-encodings (ECDSA s negated, a byte appended, the last byte dropped) are tampers of their own, classified per key type. Tamper cid-other-form-of-same-multihash keeps the digest and changes the CID around it (v0 <-> v1, other codec). distinct_nontrivial = distinct "
          "(key type, alteration, topic present / mount / id placement) tuples."),
    floors={"quick": {"head_queries_libp2p-stream": 15, "e2e_asked_for_other_identity_after_good_sync": 12, "e2e_asked_for_other_identity_than_in_address": 20, "e2e_rejections_expected": 120, "e2e_genuine_syncs": 10, "bytes_decodable_rejected": 2000, "publisher_heads_checked": 150, "e2e_mode_libp2phttp-discovery": 20, "e2e_replays_after_genuine_sync": 5, "setroot_then_head_checks": 200}},
    level_text=("Exploration: real signing, encoding, head queries and syncs; every listed alteration kind and every byte of sampled encodings is "
                "tried for every key type, and the end-to-end effect (no request after the head, no latest-synced change) is observed at a "
                "logging publisher front."),
    level_note="Trusted: libp2p key parsing (to decide semantic identity of a mutant); the front faithfully replaces only the head response.",
    assumptions=["crafted signature malleability (e.g. ECDSA high-S re-encoding) is not generated"],
)

PROPS["C09"] = dict(
    race=True,
    shards={"quick": 8, "thorough": 16},
    level="exploration",
    exhaustive=False,
    design_ref="DESIGN.md §3 C09",
    technique="runtime monitor: reference LRU+allow model (exhaustive at small capacities via a verif-tagged export), sequential and porcupine-checked concurrent histories on the real Receiver, two-host pubsub run",
    rule=("lru-exhaustive: ALL operation sequences of length 6 (quick) / 7 (thorough) over update/remove x 5 symbols at capacities 1..4 against a "
          "15-line reference list (return value and length after every operation); lru-long: 10 000-step seeded sequences at capacities 1..4 "
          "and 64; receiver-history: seeded histories of 300..2000 Direct/UncacheCid operations over CID alphabets of 66..90 on the real "
          "Receiver (allow-all / allow-none / predicate filters, IP filtering on/off, address lists mixing public/private/loopback/unspecified/"
          "localhost/DNS); every Direct carries a unique marker address so the stream read from Next identifies exactly which calls were "
          "delivered; receiver-concurrent: 3 clients issuing Direct/UncacheCid around the eviction boundary, history checked with porcupine "
          "against the same model; pubsub: three libp2p hosts on one gossip topic (publisher, relay with resend, receiver). "
          "Every fourth CID of the alphabet shares its digest with its neighbour under another codec and every sixteenth is the CIDv0 form of its neighbour's digest; the pubsub scenario rotates the downstream receiver's allow filter through {only the relay, only the original publisher, none}. One announcement in ten has only private / loopback / unspecified addresses (recognised by a CID of its own): with address filtering on it is delivered without addresses. In the pubsub scenario a burst of five announcements arrives at a second receiver whose consumer is not asking yet: all five are delivered when it does. A plain announcement published on the receiver's own host and topic is delivered where its filter allows that host. distinct_nontrivial = sampled distinct exhaustive sequences + history configurations."),
    floors={"quick": {"own_host_plain_announcements_delivered": 1, "pubsub_bursts_delivered_to_a_late_consumer": 2, "delivered_although_republication_failed": 2, "delivered_announcements_without_any_public_address": 3000, "pubsub_republication_of_disallowed_publisher": 1, "pubsub_allow_filter_on_B_only-original-publisher": 1, "evictions": 800, "refresh_on_hit": 2000, "uncache_then_delivered": 100, "rejected_then_delivered": 100, "concurrent_histories": 20, "pubsub_runs_completed": 2, "seqs_with_eviction_and_hit": 100000}},
    watchdog_s={"quick": 900, "thorough": 7200},
    level_text=("Exploration (the small-capacity LRU part is exhaustive up to the stated length): delivery decisions of the real receiver are "
                "compared call by call with a reference model of 'allowed and not among the 64 most recently seen, un-removed CIDs'; "
                "concurrent histories are checked for linearizability; pubsub attribution and self-republication are observed on real hosts."),
    level_note="Trusted: the reference model; porcupine; gossipsub delivering the relay's own publication to its own subscription before later messages.",
    assumptions=["race reports in go-libipni frames are recorded as diagnostics (the property does not claim race freedom)"],
)

PROPS["C16"] = dict(
    race=True,
    shards={"quick": 8, "thorough": 16},
    level="exploration",
    design_ref="DESIGN.md §2 C16",
    technique="runtime monitor: hang rule (two goroutine dumps, library frame, no progress) over exhaustive call sequences and seeded interleavings; goroutine-dump leak check",
    rule=("sequences: EVERY sequence of length <= 4 (quick) / 5 (thorough) over {Close, Direct, Next, UncacheCid} that contains a Close, on a "
          "receiver without pubsub, followed by one more call of each kind; each call runs under a watchdog whose firing alone decides nothing: a "
          "hang is reported only if two goroutine dumps one second apart show the call blocked in the same stack with a go-libipni frame. Direct "
          "and Next, which may legitimately wait, get a context that is cancelled after a grace period. interleavings: 2..4 goroutines with seeded "
          "scripts racing Close with the other calls, then calls after the Close completed must return the closed error; pubsub-shutdown: "
          "receiver on a real libp2p host + gossip topic, 1..3 concurrent closers, watcher goroutine must be gone; host-without-topic: a "
          "receiver created with a libp2p host and no topic runs seeded call sequences around a Close. The sequences run once without and once with an allow filter that rejects the announcing peer. Sub-check close-wakes-blocked-calls: 1..3 Direct calls blocked on a full buffer, or Next calls on an empty one, with contexts that are never cancelled; 1..2 closers; every blocked call must return (hang rule applied to the blocked call itself) with the closed error. Sub-check calls-while-allow-callback-runs parks a Direct call inside the application's allow callback and makes the other calls meanwhile; a third of the pubsub shutdowns stop the shared pubsub before the receiver is closed. Sub-check resend-without-topic-peers: a receiver with WithResend(true) on a host that has no topic peers (topic created by the receiver, or given); Direct calls with contexts that are never cancelled must return and be delivered, also when Close races with them. A third of the host-without-topic runs use the converse receiver (a ready-made topic, no host). Sub-check uncache-direct-stress: 2..5 goroutines x 300 Direct and 2..5 goroutines x 3000 UncacheCid on three CIDs with one consumer; every call must return and the Close that follows must return (a phase that does not finish while Close does return is inconclusive). distinct_nontrivial = "
          "distinct sequences / script sets."),
    floors={"quick": {"resend_receivers_without_topic_peers": 6, "calls_made_while_allow_callback_ran": 10, "sequences_with_repeated_close": 50, "concurrent_runs": 250, "pubsub_shutdowns": 4, "gossip_announcements_handled_before_close": 8, "host_without_topic_runs": 10, "topic_without_host_runs": 3, "stress_runs": 4, "stress_calls_returned": 20000, "blocked_calls_woken_by_close": 25, "sequences_with_rejecting_allow_filter": 100}},
    watchdog_s={"quick": 900, "thorough": 7200},
    gomaxprocs=4,
    level_text=("Exploration (sequential part exhaustive to the stated length): every call is observed to return; hangs are decided "
                "logically from goroutine dumps, never from elapsed time alone."),
    level_note="Trusted: the hang rule's reading of goroutine dumps; the 40 ms grace before cancelling the context of calls that may legitimately wait only affects which admissible result is expected.",
)

PROPS["C01"] = dict(
    race=False,
    shards={"quick": 8, "thorough": 16},
    level="exploration",
    design_ref="DESIGN.md §1 C01",
    technique="runtime monitor: reference chain-segment model + differential twin run, with hook log, publisher request log and store inspection",
    rule=("ad-chain: seeded configurations over chain length 1..6 (quick) or 1..9 (thorough), head = queried root | WithHeadAdCid, stop = none | SetLatestSync | "
          "WithLastKnownSync | WithStopAdCid on the chain (incl. equal to the head, newer than the head) | off-chain stop CID, WithAdsResync, depth "
          "= none | AdsDepthLimit | FirstSyncDepth | ScopedDepthLimit (incl. -1) and pairs, each 1..L+1, segment size = disabled | "
          "SegmentDepthLimit | ScopedSegmentDepthLimit 1..L+1, any subset of pre-stored blocks, strict/non-strict selector, plain and "
          "libp2p-HTTP discovery mounts. A real Subscriber syncs a real Publisher behind a logging front; hooks, SyncFinished.Count, returned "
          "head, latest-synced, requests seen by the publisher and the destination store are compared with a reference model, and with a "
          "twin run with segmentation off and nothing pre-stored. entries: SyncEntries (EntriesDepthLimit / scoped / -1, segmented), "
          "SyncOneEntry, SyncHAMTEntries over link trees without shared children. One case in eight cancels the caller's context from the block hook at the n-th reported block: a sync that then fails is not judged here, one that reports success must still be exact. A third of the entries cases are preceded, on the same subscriber, by an entries sync of another chain with a depth limit of its own (1, 2 or unlimited), which must not carry over. distinct_nontrivial = distinct configurations whose expected "
          "list is non-empty and where a stop point inside the chain, a binding depth, a segment smaller than the list or a pre-stored block is present."),
    floors={"quick": {"entries_syncs_preceded_by_a_sync_with_its_own_depth_limit": 200, "syncs_failed_by_cancellation_from_the_hook": 8, "syncs_successful_although_cancelled_from_the_hook": 150, "segmented_cases": 800, "segment_ends_exactly_on_stop_block": 50, "depth_not_multiple_of_segment": 30, "depth_limit_binding": 300, "stop_equals_head": 30,
                      "with_prestored_blocks": 1000, "discovery_mount": 100, "entries_kind_hamt": 100, "entries_kind_one": 100, "distinct": 1000}},
    level_text=("Exploration: thousands of real syncs over the configuration space of the quantifier, each compared with an independent "
                "reference model of 'head back to the stop point, cut at the applicable depth' and with a differential twin; the publisher's "
                "request log decides what was fetched."),
    level_note="Trusted: the reference model c01Expect (precedence scoped > first-sync-without-stop > subscriber limit; depth D = D blocks); chains up to 6 blocks.",
    assumptions=["WithAdsResync together with FirstSyncDepth on a publisher that already has a latest-synced value is documented ambiguously and is not generated",
                 "link trees with shared children are not generated (they are legitimately visited once per path)"],
)

PROPS["C02"] = dict(
    race=False,
    shards={"quick": 8, "thorough": 16},
    level="fault_enumeration",
    design_ref="DESIGN.md §1 C02",
    technique="runtime monitor: response-body corruption injected at a publisher front; full re-hash audit of the destination store, hook log and error oracle after every sync",
    rule=("chains of 1..5 advertisements stored under 8 CID hash prefixes (sha2-256 full and truncated to 20/16 bytes, sha2-512, sha1, sha3-256, "
          "blake3, identity); the response to the block request at position p (every position) is replaced by one of 10 corruptions (bit flip, "
          "byte substitution, truncation at a random length, empty body, appended bytes, another valid block of the chain, 4 MiB body, block+other "
          "block, doubled body); explicit and announce-triggered syncs, segmented or not, publisher reachable through one address or two "
          "(only the first corrupts). Three phases per case against one store: corrupted sync, honest retry, resync with another position "
          "corrupted. After EVERY sync every key/value of the destination store is re-hashed with the CID's own function and length, hooks must "
          "name only blocks stored intact, the corrupted sync must fail iff the corrupted response was actually consumed, and the store after "
          "the honest retry must equal the publisher's. Corruption kind cut-mid-body announces the full length and cuts the connection after k bytes (a read error mid-body); the next answer for that CID then carries only the remainder. Corruption kind redirect-to-other-block answers the request with a 302 to another genuine block of the same chain. Sub-check failing-store: the LOCAL store fails one chosen block write after k bytes and still commits what it has; the sync must fail, nothing that does not hash to its CID may be stored or reported, and the retry with a working store must complete. A third of the corrupt-sync cases mark the subscriber's own link system TrustedStorage; corruption kinds append-whitespace / prepend-whitespace add what a text-oriented host may add around a JSON document. Sub-check branching-traversal: the subscriber follows every link of an advertisement (StrictAdsSelector(false)), advertisements carry entry chunks, one reachable block (advertisement or chunk) is corrupted and the links visited after it answer correctly; the sync must fail, set no latest-synced, neither store nor report the bad block, and the honest retry must store every reachable block. After every phase the store must hold nothing but blocks of the chain that was asked for (refused bytes are not kept under another name either). Sub-check digest-of-another-function: a head whose predecessor link names hash function A while its digest is the digest of the served bytes under function B (the function of the head itself): the sync must fail and store nothing under that CID. Sub-check private-hash-function: the application link system knows a private-use function through its own HasherChooser; a corrupted body for a CID naming it is never stored or reported, whether or not the link can be followed. distinct_nontrivial = distinct (hash prefix, corruption, position, mode) tuples."),
    floors={"quick": {"blocks_served_under_a_cid_naming_another_function": 25, "mut_append-whitespace": 40, "corrupted_response_among_sibling_links": 150, "subscriber_link_system_marked_trusted": 200, "remainder_only_answers": 60, "store_write_faults_hit": 150, "corrupted_response_consumed": 1500, "audited_store_entries": 5000, "two_address_cases": 200, "big_block_cases": 40, "hash_identity": 100, "hash_sha2-256/16": 100}},
    level_text=("Fault enumeration over (hash prefix x corruption kind x request position x mode), sampled with a seeded PRNG: the real "
                "subscriber syncs from a real publisher whose responses are corrupted in flight; the destination store is audited entry by entry."),
    level_note="Trusted: go-multihash for the audit re-hash (same library the code under test uses; an independent implementation is not available offline).",
)

PROPS["C04"] = dict(
    race=False,
    shards={"quick": 16, "thorough": 16},
    gomaxprocs=4,
    level="fault_enumeration",
    design_ref="DESIGN.md §1 C04",
    technique="runtime monitor: scripted fault injection at a publisher front (status, reset, truncation, corruption, stall, cancellation, hook failure), before/after state comparison and retry against the fault-free expectation",
    rule=("each case: a baseline (latest-synced = ad 1, by a real sync or by SetLatestSync + pre-stored blocks), then a sync of head ad 4 during "
          "which one or two faults are injected at request index 0..6 (discovery probes, head, blocks) from {400, 403, 404, 500, 503, "
          "connection reset, truncated body, corrupt body, stalled response (client timeout 400 ms), context cancellation, hook FailSync}; faults "
          "persist for every re-send of that request; explicit or announce-triggered, segmented or not, plain HTTP / legacy no-path / "
          "libp2p-HTTP discovery mounts, one address or two with a dead first/second address. If the faulty sync fails: latest unchanged, no "
          "success notification, exactly one error notification for announced syncs, verified blocks intact; then faults stop and the same head "
          "is retried (re-announced for announced syncs) with the SAME subscriber: must succeed, set latest to the head, not re-request blocks "
          "verified before, emit one success notification; final store equals the publisher's; closing the subscriber must reveal no further "
          "notification. Sub-check unusable-address: the sync fails before any request because no sync client can be made from the addresses "
          "(plain tcp / udp address, or none for an unknown publisher), for subscribers with and without a libp2p host, explicit and "
          "announced; the end of an announcement's handling is detected from the tap counters; same obligations, then the same head with "
          "the real address. A fifth of the cases reach the publisher over libp2p streams (mount libp2p-stream: the subscriber has a libp2p host of its own; a reset fault resets the stream). Explicit syncs run under a 150 s bounded-progress watchdog: a sync that neither completes nor fails is a violation. A quarter of the single-address cases retry with the publisher's ID alone (no address): the address the failed sync was given must still be known. The fault-free baseline sync is a precondition: it is retried up to three times and a baseline that cannot be established leaves the case inconclusive. In a third of the announced cases the same head is announced a second time while every block request still fails: one more error notification naming the head (or, if nothing was missing any more, the successful retry). distinct_nontrivial = distinct (fault script, mode, mount, address list, baseline kind) tuples."),
    floors={"quick": {"same_head_failing_twice": 40, "retries_naming_the_publisher_only": 60, "announced_cases_with_a_concurrency_limit": 40, "mount_libp2p-stream": 80, "unusable_address_syncs_failed": 12, "faulty_syncs_failed": 500, "fault_pairs": 150, "mount_libp2phttp-discovery": 150, "mount_legacy-nopath": 150, "addrs_live-dead": 80, "addrs_dead-live": 80,
                      "fault_hit_reset": 30, "fault_hit_stall": 10, "fault_hit_ctx-cancel": 20, "fault_hit_hook-fail": 20}},
    watchdog_s={"quick": 1200, "thorough": 7200},
    level_text=("Fault enumeration (seeded sample over kind x request index x mode x mount x address list, singles and pairs): real syncs against a "
                "real publisher behind a fault-injecting front; the durable state before/after and the behaviour of the retry are compared with "
                "the fault-free expectation."),
    level_note="Trusted: the front applies exactly the scripted fault; a 400 ms HTTP timeout is configured so that stalled responses end.",
    assumptions=["a fault that the client survives (e.g. on a discovery probe, after which it falls back to plain HTTP) makes the sync succeed; then the success clauses are checked instead"],
)

PROPS["C06"] = dict(
    race=False,
    shards={"quick": 8, "thorough": 16},
    level="exploration",
    design_ref="DESIGN.md §3 C06",
    technique="runtime monitor: seeded histories over scripted sources, checked step by step against the property's clauses with interval-time TTL reasoning and source call counters",
    rule=("seeded histories of 10..40 steps over 1..3 scripted sources and populations of 2..45 providers (crossing the update-map merge threshold): "
          "per-source content changes (appear, advance, regress, disappear), sources failing/healing, Refresh, Refresh whose context is "
          "cancelled when source i is reached, two overlapping Refresh calls (one held open inside a source), Get on cached / uncached / "
          "never-reported providers, strangers that start being reported, waits; TTL regimes 'huge' (nothing can expire) and 'tiny' (1 ns, "
          "every step is certainly past it). Every record carries a unique tag and a version, so what Get/List show identifies the delivery "
          "it came from. After every refresh that returned nil the clauses of the statement are checked for every provider; expiry uses "
          "[before,after] wall-clock intervals and only asserts what is certain. Step kind refresh-cancelled-late ends the caller's context while the last source is answering (that source still delivers); refresh-overlap-cancelled requests a refresh while another one, cancelled afterwards, is inside a source. Source times are written in several zone offsets and with fractional seconds, so text order is not time order. Sub-check http-source: the library's own HTTP source reads JSON listings whose records advance, regress, disappear and change order between refreshes; the freshest record seen must be shown, a lookup must return the provider asked for, and records handed out earlier must read the same afterwards. distinct_nontrivial = distinct (configuration, first steps) histories."),
    floors={"quick": {"http_source_refreshes": 300, "lookup_misses_during_a_refresh": 600, "refreshes_cancelled_after_the_last_source_answered": 1500, "refreshes_overlapping_a_cancelled_one": 1500, "refreshes_ok": 1000, "cancelled_then_successful_refresh": 200, "refreshes_overlapping": 300, "negative_hits": 30, "expiries_observed": 100,
                      "miss_fetches_positive": 25, "publications_with_merge": 300, "publications_without_merge": 300, "strangers_start_being_reported": 200}},
    level_text=("Exploration: the real cache is driven through thousands of seeded histories and compared after each step with the clauses of the "
                "property (presence, freshest record, provenance of the record, monotonicity, TTL, negative caching)."),
    level_note="Trusted: the scripted sources; wall-clock intervals taken around each call (only certain expiry outcomes are asserted).",
    assumptions=["the order among records that all lack LastAdvertisementTime is not defined and not checked"],
)

PROPS["C07"] = dict(
    race=True,
    race_is_violation=True,
    shards={"quick": 8, "thorough": 16},
    gomaxprocs=6,
    level="exploration",
    design_ref="DESIGN.md §2 C07",
    technique="race detector + runtime monitors (per-reader version monotonicity, List snapshot membership, presence) under seeded delays at the publication points; logical no-wait test with a writer held open inside a source",
    rule=("readers-vs-writers: 2..8 reader goroutines doing Get / List / GetResults on 6..40 always-reported providers while one writer "
          "alternates 'advance some (or all) providers; Refresh' for 30..70 rounds over 1..2 sources, a miss-fetch goroutine looks up "
          "unknown and newly appearing providers (growing the update map until it is merged), automatic refresh at 1 ms in a third of the "
          "runs, and a verif tap injects seeded sleeps/yields immediately before each snapshot publication. Oracles: no data race with a "
          "pcache frame; an always-reported provider is never missing; per reader, versions never go back; without auto refresh every List is "
          "one of the version vectors published by a refresh that overlaps the call. reads-do-not-wait: a Refresh / miss-fetch / automatic "
          "refresh is held open inside the source and 2..15 readers must each complete 1000 cached lookups BEFORE it is released (a watchdog "
          "+ goroutine dumps only classify the failure). Sub-check late-miss-answer-vs-refresh: a lookup miss is held inside a source that decided its answer when the request arrived, the source learns a newer version (or starts reporting the provider), a refresh is requested, the miss is released: the provider must not go back to the older record or disappear, and after the refresh the newest record is shown. Four providers cached at the start stop being reported after round 3 and must stay listed (their time-to-live is an hour). A third of the late-miss cases let a lookup be answered by the fresher of two sources and then refresh from the lagging one only (the fresher fails, or stops listing the provider): reads must not go back. distinct_nontrivial = distinct run configurations."),
    floors={"quick": {"reads_of_cached_providers_no_longer_reported": 20000, "lookups_followed_by_a_refresh_from_a_lagging_source": 8, "late_miss_answer_cases": 20, "reads": 100000, "reads_overlapping_a_refresh": 5000, "list_snapshot_checks": 2000, "publications": 1500, "nowait_refresh": 3, "nowait_miss-fetch": 3, "nowait_auto-refresh": 3,
                      "lookups_completed_while_writer_held": 50000}},
    watchdog_s={"quick": 900, "thorough": 7200},
    level_text=("Exploration: stress runs of the real cache under the race detector with delays injected at the publication points; every read is "
                "checked online against presence, monotonicity and snapshot oracles; blocking is decided logically (readers must finish while the "
                "writer is provably still inside the source)."),
    level_note="Trusted: the Go race detector (reports only what the workload reaches); the scripted sources; single explicit writer so the sequence of published states is known.",
)

PROPS["C08"] = dict(
    race=True,
    shards={"quick": 8, "thorough": 16},
    gomaxprocs=6,
    level="exploration",
    design_ref="DESIGN.md §2 C08",
    technique="offline checker over a recorded event log (verif taps + client-boundary marks + hook log + publisher request log) of seeded, delay-injected announce/sync schedules; quiescence decided logically",
    rule=("1..4 publishers with growing chains, one announcer goroutine each (bursts of 1..6 announcements of monotone heads with seeded gaps), "
          "MaxAsyncConcurrency in {unset,1,2,k-1,k,k+1}, seeded delays at the verif tap points (after receiving, after the swap, goroutine entry, "
          "after the locks, after taking the pending message, ...) and seeded holds of block requests at the publisher front; in the second "
          "sub-check also explicit SyncAdChain goroutines on the same publishers. Quiescence = every accepted announcement was received by the "
          "watcher, spawned == entered == exited handling goroutines, no open request. Offline: sync.enter/exit never nest per publisher; "
          "async.sem..async.exit occupancy <= maximum; every hook call lies inside exactly one sync of its publisher, in chain order; every "
          "advertisement after the baseline is reported exactly once; no block requested twice; latest-synced == last announced head or an error "
          "notification naming that head. Half of the announce-only runs answer a share of first block requests with 500, so announce-triggered "
          "syncs fail while other publishers wait for a slot; the number of announce-triggered syncs between sync.enter and sync.exit is bounded "
          "by the maximum as well; the pending announcement is never taken while another sync of that publisher is between enter and exit. A quarter of the schedules use an idle-handler TTL of 0.3-3 ms with requests held at the publisher (the cleaner runs many times during every sync); the mixed runs also run SyncEntries with a scoped hook on the same publishers, whose blocks must all reach that hook. Announce-only runs with failing requests end with an announcement whose sync is held and then fails, and a newer announcement made once that sync is under way (the publisher front reports the arrival of the held request): the newer one is the last announcement, and the error notification that excuses a latest-synced short of it must name that head. In runs with expiring contexts the block hook takes its time on a third of the blocks, and a third of the explicit syncs are cancelled from the next hook call for their publisher, so contexts end while blocks are being reported; the hook calls that follow must still lie inside that sync. A poller calls GetLatestSync throughout. Half of the mixed runs whose limit is below the number of publishers call Close in mid-run: mutual exclusion per publisher and the bound on announce-triggered syncs between sync.enter and sync.exit still apply until Close returns (the completeness rules are skipped there). distinct_nontrivial = run configurations x (coalescing seen, spawn-while-running seen); distinct interleaving "
          "signatures are counted separately."),
    floors={"quick": {"runs_closed_while_announcements_and_explicit_syncs_were_coming_in": 3, "runs_with_remove_handler_calls": 15, "get_latest_sync_calls_during_syncs": 5000, "runs_ending_with_a_newer_announcement_during_a_failing_sync": 100, "slow_hook_calls_in_runs_with_expiring_contexts": 400, "explicit_syncs_cancelled_from_a_hook_call": 25, "entries_syncs_of_the_same_publishers": 120, "runs_with_idle_handler_ttl_shorter_than_a_sync": 25, "coalesced_announcements": 100, "spawn_while_previous_sync_running": 20, "syncs_observed": 300, "runs_reaching_the_concurrency_limit": 3, "runs_with_last_known_baseline": 10, "explicit_syncs_with_expiring_context": 10, "runs_with_failing_syncs": 15, "failed_announce_syncs": 50}},
    max_counters=["max_concurrent_announce_syncs", "max_announce_syncs_between_start_and_end"],
    watchdog_s={"quick": 900, "thorough": 7200},
    level_text=("Exploration over schedules: many short seeded runs with injected delays; every run's full event log is checked offline for mutual "
                "exclusion per publisher, the concurrency bound, exactly-once reporting and no lost announcement at a logically detected quiescent point."),
    level_note="Trusted: the verif taps are placed where DESIGN.md says and record with one logical clock; the race detector's reports are recorded as diagnostics only.",
)

PROPS["C14"] = dict(
    race=True,
    shards={"quick": 8, "thorough": 16},
    gomaxprocs=6,
    level="exploration",
    design_ref="DESIGN.md §2 C14",
    technique="offline checker over the emission/forwarding log (verif taps) and every listener's received sequence: MUST/MAY sets from logical timestamps, order, duplicates, counts, closure; hang rule for 'never delays'",
    rule=("1..3 publishers syncing concurrently (explicit syncs with queried head, announce-triggered syncs, and announce-triggered syncs that "
          "fail on an injected 500) for 3..8 rounds, or one publisher for 75..115 rounds with a listener that does not read; 0..5 listeners with "
          "behaviours {fast, slow, stalled until the end, cancel after n events, cancel then read the backlog, cancel immediately, register "
          "late}; seeded delays at the distributor / emission / registration taps; at the end either Close with stalled readers still holding "
          "their backlog, or every listener cancelled. Ground truth = emission and forwarding events from the taps. Per listener: MUST receive every "
          "event whose emission began after registration returned and that was forwarded before cancel was called; may receive those racing "
          "with registration/cancellation; nothing twice, nothing never emitted, per publisher in emission order, Count equals the hook calls of "
          "that sync; channel closed after the backlog. All sync workers must finish while stalled listeners are not reading (hang rule). "
          "In a third of the runs a second goroutine syncs the same publishers explicitly at the same time; in half, one sync is held (gate at "
          "the emission tap) while a second sync of the same publisher for a newer head is started, so any notification sent out of completion "
          "order reaches the fast listener out of order. Failing announce syncs are held at the publisher so that newer announcements queue "
          "behind them; every handling goroutine that ran a sync must have sent exactly one notification, and explicit syncs that ran and "
          "returned success must equal the notifications sent from explicit-sync goroutines. "
          "One explicit sync in four is a resync or carries an explicit older stop CID (the head recorded as latest then does not change, the notification is due all the same). A share of the announcements carries an address the subscriber cannot use (the handling goroutine cannot start a sync): such a goroutine sends at most one notification. A quarter of the explicit syncs have their context cancelled from the block hook (the caller gives up while the blocks are reported): a sync that completes all the same is notified like any other. Whether a notification was missed is decided per publisher by finding the notifications a listener had to get, in emission order, among those it received. In half of the runs that end with Close one more explicit sync is held at its very end while Close starts; Close lets it finish, and every listener still registered must get its notification. A third of the runs give the subscriber a 300 ms HTTP timeout and let half of the failing announce syncs fail because the publisher does not answer (a deadline error): one error notification is due all the same. The notification of an announce-triggered sync names the head of the announcement that goroutine took (pending.taken tap), whichever announcement it was started for. distinct_nontrivial = distinct run configurations."),
    floors={"quick": {"announce_syncs_failing_by_http_timeout": 20, "syncs_finishing_while_close_is_under_way": 15, "explicit_syncs_whose_context_ended_while_blocks_were_reported": 150, "listener_read-some-then-stall": 15, "announcements_with_an_unusable_address": 80, "explicit_resyncs": 100, "explicit_syncs_with_stop_cid": 80, "must_deliveries_checked": 600, "emitted_events": 500, "long_runs_with_stalled_listener": 5, "listener_stalled": 10, "listener_cancel-then-read": 10, "listener_cancel-after-n": 10, "announce_triggered_syncs_checked": 200, "held_notification_overlap_runs": 12, "explicit_syncs_completed": 300}},
    watchdog_s={"quick": 900, "thorough": 7200},
    level_text=("Exploration over schedules: each run's listeners are compared with the emission log; delivery obligations are derived from logical "
                "timestamps so that only what the statement promises is demanded."),
    level_note="Trusted: tap placement; events in the one-slot hand-off when cancel is called are treated as MAY (the statement does not pin 'not yet cancelled' to call or effect time).",
)

PROPS["C15"] = dict(
    race=True,
    shards={"quick": 8, "thorough": 16},
    gomaxprocs=6,
    level="exploration",
    design_ref="DESIGN.md §2 C15",
    technique="runtime monitor: Close started at every verif tap point of a gated explicit / announce-triggered sync; event-log checks against the first Close return; hang rule on every post-close API call; goroutine-dump leak check",
    rule=("an explicit or announce-triggered sync of a 3-block chain is held at one of the tap points (stop read, lock taken, first block "
          "request at the publisher, sync exit, event emission, distribution; for announcements also receive, swap, goroutine entry, "
          "after the async lock, after the semaphore, pending message taken) or not at all; 1..4 goroutines call Close while 0..3 further "
          "announcements of another publisher, listener cancellation and seeded tap delays race; the sync is released after Close has begun. "
          "Then: Close returned only after the running explicit sync returned (which must not fail because of the shutdown) and every handling "
          "goroutine exited; no hook call, store write, event emission or forwarding has a logical timestamp after the first Close return; all "
          "listener channels are closed; every entry point (SyncAdChain, SyncEntries, SyncOneEntry, SyncHAMTEntries, Announce, OnSyncFinished, "
          "cancel functions, Get/SetLatestSync, RemoveHandler, HttpPeerStore, Close) returns on the closed subscriber (hang rule); no goroutine "
          "with a dagsync/announce frame remains. A third of the explicit cases queue a second explicit sync of the same publisher behind the gated one; the goroutines net/http keeps per client connection are counted before the subscriber exists and after Close. Where the queued call is seen parked on the publisher's lock inside the library (goroutine dump) before Close is called, it has been accepted and must complete without error. One case in six runs the subscriber on a libp2p host with a gossip topic of its own (RecvAnnounce with a topic name): the goroutines running go-libp2p-pubsub code are counted before the subscriber exists and after Close, while the host stays up. distinct_nontrivial = distinct (sync kind, close point, closers, racing activity) tuples."),
    floors={"quick": {"announce_syncs_held_until_the_watcher_was_stopped": 25, "close_with_second_explicit_sync_waiting_for_the_publishers_lock": 12, "subscribers_with_their_own_gossip_topic_closed": 20, "http_client_connections_checked": 150, "close_with_second_explicit_sync_queued": 15, "post_close_calls": 800, "close_point_reached_sync.enter": 5, "close_point_reached_front": 5, "close_point_reached_pending.taken": 2, "closers_4": 5, "close_with_sync_waiting_for_async_slot": 1}},
    watchdog_s={"quick": 900, "thorough": 7200},
    level_text=("Exploration over schedules: Close is started at every instrumented point of a running sync; what happens after its first return "
                "is read from the event log and goroutine dumps; blocking is decided by the hang rule."),
    level_note="Trusted: tap placement; the hang rule; goroutine dumps filtered to dagsync/announce frames (publisher-side server goroutines of the harness are excluded).",
)
