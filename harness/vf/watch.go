package vf

import (
	"regexp"
	"runtime"
	"strconv"
	"strings"
	"time"
)

// Verdict of a watched call.
type Verdict int

const (
	Returned     Verdict = iota // the call returned
	Hung                        // blocked inside a go-libipni frame, no progress between two dumps
	Inconclusive                // did not return, but not demonstrably blocked in the library
)

func (v Verdict) String() string {
	return [...]string{"returned", "hung", "inconclusive"}[v]
}

func goid() int {
	var buf [64]byte
	n := runtime.Stack(buf[:], false)
	f := strings.Fields(string(buf[:n]))
	if len(f) >= 2 {
		id, _ := strconv.Atoi(f[1])
		return id
	}
	return -1
}

var reMinutes = regexp.MustCompile(`, \d+ minutes`)
var reArgs = regexp.MustCompile(`\(0x[0-9a-f, x.{}]*\)`)
var reOff = regexp.MustCompile(` \+0x[0-9a-f]+`)

// GoroutineBlock extracts the dump block of goroutine id from a full dump.
func GoroutineBlock(dump string, id int) string {
	pre := "goroutine " + strconv.Itoa(id) + " ["
	for _, blk := range strings.Split(dump, "\n\n") {
		if strings.HasPrefix(blk, pre) {
			return blk
		}
	}
	return ""
}

func normBlock(b string) string {
	b = reMinutes.ReplaceAllString(b, "")
	b = reArgs.ReplaceAllString(b, "()")
	b = reOff.ReplaceAllString(b, "")
	return b
}

// Watch runs f in a new goroutine and waits up to d for it to return. It never
// uses elapsed time as a verdict by itself: when d expires it takes two
// goroutine dumps one second apart and reports Hung only if f's goroutine sits
// in the same stack, blocked, with a go-libipni frame on it.
func Watch(d time.Duration, f func()) (Verdict, string) {
	done := make(chan struct{})
	idc := make(chan int, 1)
	go func() {
		idc <- goid()
		defer close(done)
		f()
	}()
	id := <-idc
	t := time.NewTimer(d)
	defer t.Stop()
	select {
	case <-done:
		return Returned, ""
	case <-t.C:
	}
	d1 := GoroutineBlock(AllStacks(), id)
	select {
	case <-done:
		return Returned, ""
	case <-time.After(time.Second):
	}
	d2 := GoroutineBlock(AllStacks(), id)
	select {
	case <-done:
		return Returned, ""
	default:
	}
	if d1 == "" || d2 == "" {
		return Inconclusive, d1 + "\n--\n" + d2
	}
	if normBlock(d1) == normBlock(d2) && strings.Contains(d2, "github.com/ipni/go-libipni/") && isBlockedState(d2) {
		return Hung, d2
	}
	return Inconclusive, d2
}

func isBlockedState(blk string) bool {
	first := blk
	if i := strings.IndexByte(blk, '\n'); i > 0 {
		first = blk[:i]
	}
	for _, s := range []string{"chan send", "chan receive", "select", "sync.Mutex.Lock", "semacquire", "sync.RWMutex", "sync.WaitGroup.Wait", "sync.Cond.Wait"} {
		if strings.Contains(first, s) {
			return true
		}
	}
	return false
}

// LibGoroutines returns the dump blocks of goroutines that have a go-libipni
// frame (excluding harness frames given in ignore) — used for leak checks.
func LibGoroutines(ignore ...string) []string {
	var out []string
	for _, blk := range strings.Split(AllStacks(), "\n\n") {
		if !strings.Contains(blk, "github.com/ipni/go-libipni/") {
			continue
		}
		skip := false
		for _, ig := range ignore {
			if strings.Contains(blk, ig) {
				skip = true
			}
		}
		if !skip {
			out = append(out, blk)
		}
	}
	return out
}
