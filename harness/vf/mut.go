package vf

import (
	"encoding/binary"
	"math/rand"
	"runtime"
)

// Mutate derives one hostile input from a valid encoding a (other is a second
// valid encoding used for splices). It returns the mutant and the kind of
// mutation, so evidence can report which kinds were exercised.
func Mutate(r *rand.Rand, a, other []byte) ([]byte, string) {
	cp := func(b []byte) []byte { return append([]byte(nil), b...) }
	if len(a) == 0 {
		n := r.Intn(16)
		b := make([]byte, n)
		r.Read(b)
		return b, "random"
	}
	switch k := r.Intn(12); k {
	case 0: // single bit flip
		b := cp(a)
		i := r.Intn(len(b))
		b[i] ^= 1 << uint(r.Intn(8))
		return b, "bitflip"
	case 1: // byte substitution
		b := cp(a)
		b[r.Intn(len(b))] = byte(r.Intn(256))
		return b, "bytesub"
	case 2: // truncation
		return cp(a[:r.Intn(len(a))]), "truncate"
	case 3: // deletion of a range
		i := r.Intn(len(a))
		j := i + 1 + r.Intn(min(8, len(a)-i))
		return append(cp(a[:i]), a[j:]...), "delete"
	case 4: // insertion of random bytes
		i := r.Intn(len(a) + 1)
		ins := make([]byte, 1+r.Intn(8))
		r.Read(ins)
		return append(append(cp(a[:i]), ins...), a[i:]...), "insert"
	case 5: // splice with another valid encoding
		if len(other) == 0 {
			other = a
		}
		i := r.Intn(len(a) + 1)
		j := r.Intn(len(other) + 1)
		return append(cp(a[:i]), other[j:]...), "splice"
	case 6: // append trailing bytes
		ins := make([]byte, 1+r.Intn(16))
		r.Read(ins)
		return append(cp(a), ins...), "append"
	case 7, 8: // overwrite some position with a huge varint (length-field tampering)
		i := r.Intn(len(a))
		var v uint64
		sh := uint(7 + r.Intn(57))
		switch r.Intn(3) {
		case 0:
			v = 1 << sh
		case 1:
			v = 1<<sh - 1
		default:
			v = r.Uint64() >> uint(r.Intn(56))
		}
		vb := binary.AppendUvarint(nil, v)
		// either replace one byte by the varint, or overwrite in place
		if r.Intn(2) == 0 {
			return append(append(cp(a[:i]), vb...), a[i+1:]...), "varint-tamper"
		}
		b := cp(a)
		copy(b[i:], vb)
		return b, "varint-tamper"
	case 9: // CBOR-style header tampering: major type byte with 8-byte length
		i := r.Intn(len(a))
		hdr := []byte{byte(r.Intn(8))<<5 | 27, 0, 0, 0, 0, 0, 0, 0, 0}
		binary.BigEndian.PutUint64(hdr[1:], r.Uint64()>>uint(r.Intn(60)))
		return append(append(cp(a[:i]), hdr...), a[i+1:]...), "cbor-len-tamper"
	case 10: // duplicate a range
		i := r.Intn(len(a))
		j := i + 1 + r.Intn(min(16, len(a)-i))
		return append(append(cp(a[:j]), a[i:j]...), a[j:]...), "duplicate"
	default: // pure random
		b := make([]byte, r.Intn(2*len(a)+1))
		r.Read(b)
		return b, "random"
	}
}

// AllocDelta runs f and returns the number of heap bytes allocated meanwhile.
// Only meaningful when no other goroutine of the process allocates.
func AllocDelta(f func()) uint64 {
	var m0, m1 runtime.MemStats
	runtime.ReadMemStats(&m0)
	f()
	runtime.ReadMemStats(&m1)
	return m1.TotalAlloc - m0.TotalAlloc
}
