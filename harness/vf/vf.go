// Package vf is the small framework shared by every property monitor: per-case
// deterministic PRNGs, sharding, "current case" journaling (so that a fatal
// runtime error still leaves the input on disk), failure records with
// witnesses, coverage counters and the final summary record.
package vf

import (
	"encoding/json"
	"fmt"
	"hash/fnv"
	"math/rand"
	"os"
	"path/filepath"
	"runtime"
	"runtime/debug"
	"sort"
	"strings"
	"sync"
	"sync/atomic"
	"time"
)

const maxDistinct = 400000

type Ctx struct {
	Prop    string
	Tier    string
	Seed    int64
	Shard   int
	NShards int
	OutDir  string

	// Replay: when ReplaySub != "", only the case (ReplaySub, ReplayIdx) runs.
	ReplaySub string
	ReplayIdx int64
	OnlySub   string
	Verbose   bool

	mu       sync.Mutex
	res      *os.File
	cur      *os.File
	counters map[string]int64
	distinct map[uint64]struct{}
	dsets    map[string]map[uint64]struct{}
	samples  map[string][]any
	evals    atomic.Int64
	fails    int
	failKeys map[string]int
	notes    []string
	start    time.Time
	clock    atomic.Int64
}

func New(prop, tier string, seed int64, shard, nshards int, outDir string) (*Ctx, error) {
	if err := os.MkdirAll(outDir, 0o755); err != nil {
		return nil, err
	}
	res, err := os.OpenFile(filepath.Join(outDir, "results.jsonl"), os.O_CREATE|os.O_WRONLY|os.O_TRUNC, 0o644)
	if err != nil {
		return nil, err
	}
	cur, err := os.OpenFile(filepath.Join(outDir, "current.json"), os.O_CREATE|os.O_WRONLY|os.O_TRUNC, 0o644)
	if err != nil {
		return nil, err
	}
	return &Ctx{
		Prop: prop, Tier: tier, Seed: seed, Shard: shard, NShards: nshards, OutDir: outDir,
		res: res, cur: cur,
		counters: map[string]int64{},
		distinct: map[uint64]struct{}{},
		dsets:    map[string]map[uint64]struct{}{},
		samples:  map[string][]any{},
		failKeys: map[string]int{},
		start:    time.Now(),
	}, nil
}

func (c *Ctx) Thorough() bool { return c.Tier == "thorough" }

// N picks a case count by tier.
func (c *Ctx) N(quick, thorough int) int {
	if c.Thorough() {
		return thorough
	}
	return quick
}

// Mine tells whether case i belongs to this shard (and, in replay mode,
// whether it is the case being replayed).
func (c *Ctx) Mine(sub string, i int) bool {
	if c.ReplaySub != "" {
		return sub == c.ReplaySub && int64(i) == c.ReplayIdx
	}
	return i%c.NShards == c.Shard
}

// Active tells whether sub should be run at all (replay mode restricts to one).
func (c *Ctx) Active(sub string) bool {
	if c.OnlySub != "" {
		return c.OnlySub == sub
	}
	return c.ReplaySub == "" || c.ReplaySub == sub
}

func h64(parts ...string) uint64 {
	h := fnv.New64a()
	for _, p := range parts {
		h.Write([]byte(p))
		h.Write([]byte{0})
	}
	return h.Sum64()
}

// Rand returns the PRNG of case (sub, i): determined by seed, sub and i only,
// so a case can be replayed in isolation.
func (c *Ctx) Rand(sub string, i int) *rand.Rand {
	s := h64(c.Prop, sub, fmt.Sprint(c.Seed), fmt.Sprint(i))
	return rand.New(rand.NewSource(int64(s)))
}

// Tick returns the next value of the single logical clock.
func (c *Ctx) Tick() int64 { return c.clock.Add(1) }

// Cur journals the case about to run. Written with pwrite, no fsync: it
// survives the death of the process, which is what is needed.
func (c *Ctx) Cur(sub string, i int, desc string) {
	if len(desc) > 8192 {
		desc = desc[:8192]
	}
	b, _ := json.Marshal(map[string]any{"sub": sub, "idx": i, "desc": desc, "seed": c.Seed, "tier": c.Tier, "shard": c.Shard, "nshards": c.NShards})
	b = append(b, '\n')
	c.mu.Lock()
	_ = c.cur.Truncate(0)
	_, _ = c.cur.WriteAt(b, 0)
	c.mu.Unlock()
}

// Eval counts executed cases.
func (c *Ctx) Eval(n int) { c.evals.Add(int64(n)) }

// Inc bumps a named coverage counter.
func (c *Ctx) Inc(name string) { c.Add(name, 1) }

func (c *Ctx) Add(name string, n int64) {
	c.mu.Lock()
	c.counters[name] += n
	c.mu.Unlock()
}

// Max keeps the maximum observed for a counter.
func (c *Ctx) Max(name string, v int64) {
	c.mu.Lock()
	if v > c.counters[name] {
		c.counters[name] = v
	}
	c.mu.Unlock()
}

// Distinct records the signature of a non-trivial case.
func (c *Ctx) Distinct(sig ...string) {
	h := h64(sig...)
	c.mu.Lock()
	if len(c.distinct) < maxDistinct {
		c.distinct[h] = struct{}{}
	}
	c.mu.Unlock()
}

// DistinctIn records a signature in a named side set (e.g. interleavings).
func (c *Ctx) DistinctIn(set string, sig ...string) {
	h := h64(sig...)
	c.mu.Lock()
	m := c.dsets[set]
	if m == nil {
		m = map[uint64]struct{}{}
		c.dsets[set] = m
	}
	if len(m) < maxDistinct {
		m[h] = struct{}{}
	}
	c.mu.Unlock()
}

// Sample keeps up to 2 samples per kind.
func (c *Ctx) Sample(kind string, v any) {
	c.mu.Lock()
	if len(c.samples[kind]) < 2 {
		c.samples[kind] = append(c.samples[kind], v)
	}
	c.mu.Unlock()
}

// WantSample tells whether another sample of that kind would be kept.
func (c *Ctx) WantSample(kind string) bool {
	c.mu.Lock()
	defer c.mu.Unlock()
	return len(c.samples[kind]) < 2
}

func (c *Ctx) Note(format string, a ...any) {
	c.mu.Lock()
	if len(c.notes) < 50 {
		c.notes = append(c.notes, fmt.Sprintf(format, a...))
	}
	c.mu.Unlock()
}

type rec struct {
	Type    string `json:"type"`
	Sub     string `json:"sub,omitempty"`
	Idx     int    `json:"idx"`
	Key     string `json:"key,omitempty"`
	Detail  string `json:"detail,omitempty"`
	Witness any    `json:"witness,omitempty"`
	Seed    int64  `json:"seed"`
	Tier    string `json:"tier"`
	Shard   int    `json:"shard"`
	NShards int    `json:"nshards"`
	Kind    string `json:"kind,omitempty"` // fail | inconclusive
}

// Fail records a refuting observation. key is the stable classification key
// used to match known findings; detail is free text; witness is whatever is
// needed to understand / replay the case.
func (c *Ctx) Fail(sub string, i int, key, detail string, witness any) {
	c.emit("fail", sub, i, key, detail, witness)
}

// Inconclusive records that a case could not be decided.
func (c *Ctx) Inconclusive(sub string, i int, key, detail string, witness any) {
	c.emit("inconclusive", sub, i, key, detail, witness)
}

func (c *Ctx) emit(kind, sub string, i int, key, detail string, witness any) {
	c.mu.Lock()
	defer c.mu.Unlock()
	c.failKeys[kind+":"+key]++
	// Keep at most 20 full records per key; count the rest.
	if c.failKeys[kind+":"+key] > 20 {
		return
	}
	if len(detail) > 4000 {
		detail = detail[:4000] + "…"
	}
	b, err := json.Marshal(rec{Type: "case", Kind: kind, Sub: sub, Idx: i, Key: key, Detail: detail, Witness: witness,
		Seed: c.Seed, Tier: c.Tier, Shard: c.Shard, NShards: c.NShards})
	if err != nil {
		b, _ = json.Marshal(rec{Type: "case", Kind: kind, Sub: sub, Idx: i, Key: key, Detail: detail + " (witness not serialisable: " + err.Error() + ")",
			Seed: c.Seed, Tier: c.Tier, Shard: c.Shard, NShards: c.NShards})
	}
	c.res.Write(append(b, '\n'))
	if c.Verbose {
		fmt.Fprintf(os.Stderr, "%s %s[%d] key=%s %s\n", strings.ToUpper(kind), sub, i, key, detail)
	}
}

// Guard runs f, converting a panic into a failure record keyed by the
// innermost go-libipni frame.
func (c *Ctx) Guard(sub string, i int, witness func() any, f func()) (panicked bool) {
	defer func() {
		if r := recover(); r != nil {
			panicked = true
			st := string(debug.Stack())
			var w any
			if witness != nil {
				w = witness()
			}
			c.Fail(sub, i, "panic:"+LibFrame(st), fmt.Sprintf("panic: %v\n%s", r, trimStack(st)), w)
		}
	}()
	f()
	return false
}

// LibFrame returns the first function of go-libipni found in a stack dump.
func LibFrame(st string) string {
	for _, ln := range strings.Split(st, "\n") {
		ln = strings.TrimSpace(ln)
		if strings.HasPrefix(ln, "github.com/ipni/go-libipni/") {
			if j := strings.LastIndex(ln, "("); j > 0 {
				ln = ln[:j]
			}
			return strings.TrimPrefix(ln, "github.com/ipni/go-libipni/")
		}
	}
	return "nolibframe"
}

func trimStack(st string) string {
	lines := strings.Split(st, "\n")
	if len(lines) > 40 {
		lines = lines[:40]
	}
	return strings.Join(lines, "\n")
}

// AllStacks dumps every goroutine.
func AllStacks() string {
	buf := make([]byte, 1<<20)
	for {
		n := runtime.Stack(buf, true)
		if n < len(buf) {
			return string(buf[:n])
		}
		buf = make([]byte, 2*len(buf))
	}
}

// Finish writes the summary record.
func (c *Ctx) Finish() {
	c.mu.Lock()
	defer c.mu.Unlock()
	hs := make([]string, 0, len(c.distinct))
	for h := range c.distinct {
		hs = append(hs, fmt.Sprintf("%x", h))
	}
	sort.Strings(hs)
	ds := map[string][]string{}
	for name, m := range c.dsets {
		l := make([]string, 0, len(m))
		for h := range m {
			l = append(l, fmt.Sprintf("%x", h))
		}
		sort.Strings(l)
		ds[name] = l
	}
	b, _ := json.Marshal(map[string]any{
		"type": "summary", "evaluations": c.evals.Load(), "distinct": hs, "dsets": ds,
		"counters": c.counters, "samples": c.samples, "fail_counts": c.failKeys, "notes": c.notes,
		"wall_s": time.Since(c.start).Seconds(), "shard": c.Shard,
	})
	c.res.Write(append(b, '\n'))
	c.res.Sync()
	c.res.Close()
	c.cur.Close()
}
