package props

import (
	"bytes"
	"fmt"
	"github.com/libp2p/go-libp2p/core/peer"
	"math/rand"

	"github.com/ipfs/go-cid"
	"github.com/ipld/go-ipld-prime"
	"github.com/ipld/go-ipld-prime/codec/dagcbor"
	"github.com/ipld/go-ipld-prime/codec/dagjson"
	cidlink "github.com/ipld/go-ipld-prime/linking/cid"
	"github.com/ipni/go-libipni/ingest/schema"
	"github.com/multiformats/go-multihash"
)

func randCid(r *rand.Rand) cid.Cid {
	code := []uint64{multihash.SHA2_256, multihash.SHA2_512, multihash.IDENTITY}[r.Intn(3)]
	mh, _ := multihash.Sum(rbytes(r, 1+r.Intn(24)), code, -1)
	codec := []uint64{cid.DagJSON, cid.DagCBOR, cid.Raw}[r.Intn(3)]
	return cid.NewCidV1(codec, mh)
}

type adShape struct {
	Prev, RealEntries, Rm, EP, Override bool
	CidFormIDs                          bool
	NEP, NAddrs                         int
	KeyType                             string
}

func (s adShape) String() string {
	return fmt.Sprintf("prev=%v entries=%v rm=%v ep=%v/%d override=%v addrs=%d key=%s cid-form-ids=%v", s.Prev, s.RealEntries, s.Rm, s.EP, s.NEP, s.Override, s.NAddrs, s.KeyType, s.CidFormIDs)
}

func genAddrs(r *rand.Rand, n int) []string {
	out := make([]string, n)
	for k := range out {
		out[k] = fmt.Sprintf("/ip4/%d.%d.%d.%d/tcp/%d", 1+r.Intn(220), r.Intn(256), r.Intn(256), r.Intn(256), 1+r.Intn(65535))
		// address strings are carried as the provider wrote them: valid multiaddrs in a spelling other than the
		// canonical one among them
		switch r.Intn(18) {
		case 0:
			out[k] += "/"
		case 1:
			out[k] = fmt.Sprintf("/ip6/0:0:0:0:0:0:0:%x/tcp/%d", 1+r.Intn(0xfffe), 1+r.Intn(65535))
		case 2:
			out[k] += "/ipfs/12D3KooWHHzSeKaY8xuZVzkLbKFfvNgPPeKhFBGrMbNzbm5akpqu"
		}
	}
	return out
}

// genAd builds an unsigned advertisement; eps are the identities of the
// extended providers in list order (main is among them when shape.EP).
func genAd(r *rand.Rand, main Ident, pool []Ident) (*schema.Advertisement, adShape, []Ident) {
	sh := adShape{Prev: r.Intn(2) == 0, RealEntries: r.Intn(3) != 0, NAddrs: r.Intn(5), KeyType: main.Type}
	ad := &schema.Advertisement{
		Provider:  main.ID.String(),
		Addresses: genAddrs(r, sh.NAddrs),
		ContextID: rbytes(r, pickLen(r, 64, 0, 1, 64)),
		Metadata:  rbytes(r, pickLen(r, 1024, 0, 1, 1024)),
	}
	if sh.Prev {
		ad.PreviousID = cidlink.Link{Cid: randCid(r)}
	}
	if sh.RealEntries {
		ad.Entries = cidlink.Link{Cid: randCid(r)}
	} else {
		ad.Entries = schema.NoEntries
	}
	var eps []Ident
	if r.Intn(2) == 0 {
		sh.EP = true
		sh.Override = r.Intn(2) == 0
		sh.NEP = r.Intn(4) // other providers besides main
		ep := &schema.ExtendedProvider{Override: sh.Override}
		used := map[string]bool{main.ID.String(): true}
		for k := 0; k < sh.NEP; k++ {
			var id Ident
			for {
				id = pool[r.Intn(len(pool))]
				if !used[id.ID.String()] {
					break
				}
			}
			used[id.ID.String()] = true
			eps = append(eps, id)
		}
		at := r.Intn(len(eps) + 1)
		eps = append(eps[:at], append([]Ident{main}, eps[at:]...)...)
		if r.Intn(10) == 0 {
			// an extended-provider section without any provider (it still carries the override flag)
			eps, sh.NEP = nil, -1
		}
		for _, id := range eps {
			pr := schema.Provider{ID: id.ID.String(), Addresses: genAddrs(r, r.Intn(3)), Metadata: rbytes(r, r.Intn(20))}
			// entries that leave their values out, or repeat the advertisement's own ("may omit them if they match")
			switch r.Intn(6) {
			case 0:
				pr.Addresses, pr.Metadata = nil, nil
			case 1:
				pr.Addresses, pr.Metadata = append([]string(nil), ad.Addresses...), append([]byte(nil), ad.Metadata...)
			}
			ep.Providers = append(ep.Providers, pr)
		}
		ad.ExtendedProvider = ep
	} else {
		sh.Rm = r.Intn(3) == 0
		ad.IsRm = sh.Rm
	}
	// identities may be written in the CID text form of a peer ID instead of base58
	if r.Intn(8) == 0 {
		if pid, err := peer.Decode(ad.Provider); err == nil {
			ad.Provider = peer.ToCid(pid).String()
		}
		if ad.ExtendedProvider != nil {
			for k := range ad.ExtendedProvider.Providers {
				if pid, err := peer.Decode(ad.ExtendedProvider.Providers[k].ID); err == nil && (r.Intn(2) == 0 || ad.ExtendedProvider.Providers[k].ID == main.ID.String()) {
					ad.ExtendedProvider.Providers[k].ID = peer.ToCid(pid).String()
				}
			}
		}
		sh.CidFormIDs = true
	}
	return ad, sh, eps
}

func cloneAd(a *schema.Advertisement) *schema.Advertisement {
	b := *a
	b.Addresses = append([]string(nil), a.Addresses...)
	b.Signature = append([]byte(nil), a.Signature...)
	b.ContextID = append([]byte(nil), a.ContextID...)
	b.Metadata = append([]byte(nil), a.Metadata...)
	if a.ExtendedProvider != nil {
		ep := *a.ExtendedProvider
		ep.Providers = make([]schema.Provider, len(a.ExtendedProvider.Providers))
		for i, p := range a.ExtendedProvider.Providers {
			q := p
			q.Addresses = append([]string(nil), p.Addresses...)
			q.Metadata = append([]byte(nil), p.Metadata...)
			q.Signature = append([]byte(nil), p.Signature...)
			ep.Providers[i] = q
		}
		b.ExtendedProvider = &ep
	}
	return &b
}

// adCodecRoundTrip encodes the ad with the codec and decodes it back through
// the library's byte-level entry point.
func adCodecRoundTrip(a *schema.Advertisement, codec uint64) (*schema.Advertisement, []byte, error) {
	n, err := a.ToNode()
	if err != nil {
		return nil, nil, fmt.Errorf("ToNode: %w", err)
	}
	var buf bytes.Buffer
	switch codec {
	case cid.DagJSON:
		err = dagjson.Encode(n, &buf)
	case cid.DagCBOR:
		err = dagcbor.Encode(n, &buf)
	}
	if err != nil {
		return nil, nil, fmt.Errorf("encode: %w", err)
	}
	mh, _ := multihash.Sum(buf.Bytes(), multihash.SHA2_256, -1)
	out, err := schema.BytesToAdvertisement(cid.NewCidV1(codec, mh), buf.Bytes())
	if err != nil {
		return nil, buf.Bytes(), fmt.Errorf("decode: %w", err)
	}
	return &out, buf.Bytes(), nil
}

var _ ipld.Node
