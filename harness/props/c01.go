package props

import (
	"errors"
	"context"
	"fmt"
	"math/rand"
	"strings"
	"sync"

	"github.com/ipfs/go-cid"
	"github.com/ipld/go-ipld-prime"
	"github.com/ipld/go-ipld-prime/fluent"
	cidlink "github.com/ipld/go-ipld-prime/linking/cid"
	"github.com/ipld/go-ipld-prime/node/basicnode"
	"github.com/ipni/go-libipni/dagsync"
	"github.com/ipni/go-libipni/ingest/schema"
	"github.com/libp2p/go-libp2p/core/peer"
	"github.com/multiformats/go-multihash"

	"verif/harness/vf"
)

func init() { Registry["C01"] = runC01 }

// chain length explored: 6 in the quick tier, 9 in the thorough tier (set in runC01)
var c01MaxLen = 6

type c01Case struct {
	HeadIdx   int    // index of the requested head in the chain (chain length L = HeadIdx+1 as far as the sync can see)
	Queried   bool   // head obtained by querying the publisher (root = chain[HeadIdx]) vs WithHeadAdCid
	StopKind  string // none | latest-set | last-known | stop-cid | stop-cid-offchain
	StopIdx   int    // index on the chain for latest-set / last-known / stop-cid
	Resync    bool
	AdsDepth  int64 // subscriber AdsDepthLimit (0 = none)
	FirstSync int64 // subscriber FirstSyncDepth (0 = none)
	Scoped    int64 // ScopedDepthLimit (0 = unset, -1 = unlimited)
	SegSub    int64 // subscriber SegmentDepthLimit (0 = default/disabled)
	SegScoped int64 // ScopedSegmentDepthLimit (0 = unset)
	Pre       uint  // bit mask of pre-stored chain blocks
	Strict    bool
	Mount     FrontMode
	CancelAt  int // >0: the caller's context is cancelled from the block hook when the n-th block is reported
}

func (k c01Case) String() string {
	return fmt.Sprintf("head=%d queried=%v stop=%s@%d resync=%v ads=%d first=%d scoped=%d segsub=%d segscoped=%d pre=%09b strict=%v mount=%s cancel-at-hook=%d",
		k.HeadIdx, k.Queried, k.StopKind, k.StopIdx, k.Resync, k.AdsDepth, k.FirstSync, k.Scoped, k.SegSub, k.SegScoped, k.Pre, k.Strict, k.Mount, k.CancelAt)
}

// c01Expect is the reference model: indices of the chain blocks that must be
// reported, newest first; and whether the call is a no-op because the stop
// point equals the head.
func c01Expect(k c01Case) (exp []int, nothingToDo bool, depth int64, stopIdx int) {
	// which stop point applies
	stopIdx = -1 // none / not on the chain
	hasStop := false
	switch {
	case k.StopKind == "stop-cid":
		hasStop, stopIdx = true, k.StopIdx
	case k.StopKind == "stop-cid-offchain":
		hasStop = true
	case k.Resync:
		// latest is ignored
	case k.StopKind == "latest-set" || k.StopKind == "last-known":
		hasStop, stopIdx = true, k.StopIdx
	}
	if hasStop && stopIdx == k.HeadIdx {
		return nil, true, 0, stopIdx
	}
	// depth limit that applies: scoped > first-sync (only without a stop point) > subscriber
	depth = k.AdsDepth
	if k.Scoped != 0 {
		depth = k.Scoped
	} else if !hasStop && k.FirstSync != 0 {
		depth = k.FirstSync
	}
	for i := k.HeadIdx; i >= 0; i-- {
		if hasStop && i == stopIdx {
			break
		}
		if depth > 0 && int64(len(exp)) >= depth {
			break
		}
		exp = append(exp, i)
	}
	return exp, false, depth, stopIdx
}

func c01Gen(r *rand.Rand) c01Case {
	// the non-strict selector explores every link of an advertisement (incl. Entries), which is a
	// different traversal: the chains here are real advertisements, so the strict selector is used
	k := c01Case{HeadIdx: r.Intn(c01MaxLen), Queried: r.Intn(3) != 0, Strict: true}
	L := k.HeadIdx + 1
	switch r.Intn(8) {
	case 0, 1:
		k.StopKind = "none"
	case 2, 3:
		k.StopKind, k.StopIdx = "latest-set", r.Intn(L)
	case 4:
		k.StopKind, k.StopIdx = "last-known", r.Intn(L)
	case 5, 6:
		k.StopKind, k.StopIdx = "stop-cid", r.Intn(L)
	default:
		k.StopKind = "stop-cid-offchain"
	}
	// sometimes a stop point newer than the head (only possible with an explicit, older head)
	if !k.Queried && k.StopKind != "none" && k.StopKind != "stop-cid-offchain" && r.Intn(6) == 0 && k.HeadIdx < c01MaxLen-1 {
		k.StopIdx = k.HeadIdx + 1 + r.Intn(c01MaxLen-1-k.HeadIdx)
	}
	k.Resync = r.Intn(5) == 0
	lim := func() int64 { return int64(1 + r.Intn(L+1)) }
	switch r.Intn(10) {
	case 8:
		k.FirstSync, k.Scoped = lim(), lim()
	case 9:
		k.AdsDepth, k.FirstSync, k.Scoped = lim(), lim(), []int64{lim(), -1}[r.Intn(2)]
	case 0, 1:
	case 2:
		k.AdsDepth = lim()
	case 3:
		k.FirstSync = lim()
	case 4:
		k.Scoped = lim()
	case 5:
		k.AdsDepth, k.Scoped = lim(), lim()
	case 6:
		k.AdsDepth, k.FirstSync = lim(), lim()
	default:
		k.Scoped = -1
		k.AdsDepth = lim()
	}
	switch r.Intn(6) {
	case 0, 1:
	case 2, 3:
		k.SegSub = int64(1 + r.Intn(L+1))
	case 4:
		k.SegScoped = int64(1 + r.Intn(L+1))
	default:
		k.SegSub, k.SegScoped = int64(1+r.Intn(L+1)), int64(1+r.Intn(L+1))
	}
	switch r.Intn(4) {
	case 0:
	case 1:
		k.Pre = uint(r.Intn(1 << uint(L)))
	case 2:
		k.Pre = 1 << uint(r.Intn(L))
	default:
		k.Pre = uint(r.Intn(1<<uint(L))) | 1<<uint(k.HeadIdx) // head itself present
	}
	if r.Intn(10) == 0 {
		k.Mount = MountDiscovery
	}
	// Ambiguous by documentation (first-sync depth on a resync of a known publisher): not generated.
	if k.Resync && k.FirstSync != 0 && (k.StopKind == "latest-set" || k.StopKind == "last-known") {
		k.FirstSync = 0
	}
	// the caller gives up while block hooks run: the sync may fail, but if it reports success it must be exact
	if r.Intn(8) == 0 {
		k.CancelAt = 1 + r.Intn(k.HeadIdx+1)
	}
	return k
}

// prevHook is a MakeGeneralBlockHook-style hook: records the call and tells the
// segmented sync which CID comes next.
type hookLog struct {
	mu    sync.Mutex
	calls []cid.Cid
	peers []peer.ID
}

func (h *hookLog) reset() {
	h.mu.Lock()
	h.calls, h.peers = nil, nil
	h.mu.Unlock()
}

func (h *hookLog) list() []cid.Cid {
	h.mu.Lock()
	defer h.mu.Unlock()
	return append([]cid.Cid(nil), h.calls...)
}

func adPrevHook(dst *Store, log *hookLog) dagsync.BlockHookFunc {
	return func(p peer.ID, c cid.Cid, act dagsync.SegmentSyncActions) {
		log.mu.Lock()
		log.calls = append(log.calls, c)
		log.peers = append(log.peers, p)
		log.mu.Unlock()
		raw, ok := dst.Raw(c)
		if !ok {
			act.FailSync(fmt.Errorf("hooked block %s not in the store", c))
			return
		}
		ad, err := schema.BytesToAdvertisement(c, raw)
		if err != nil {
			act.FailSync(err)
			return
		}
		act.SetNextSyncCid(ad.PreviousCid())
	}
}

type c01Outcome struct {
	hooks    []int // chain indices (or -1 for foreign)
	reqs     []int
	ret      cid.Cid
	err      error
	latest   cid.Cid
	count    int
	gotEvent bool
	missing  []int
}

func idxList(ch *Chain, cs []cid.Cid) []int {
	out := make([]int, len(cs))
	for i, c := range cs {
		out[i] = ch.Pos(c)
	}
	return out
}

type c01Env struct {
	c     *vf.Ctx
	pub   *Store
	chain *Chain
	front map[FrontMode]*Front
	id    Ident
	off   cid.Cid
}

func newC01Env(c *vf.Ctx, r *rand.Rand) (*c01Env, error) {
	e := &c01Env{c: c, pub: NewStore(), id: Keys()["ed25519"][1], front: map[FrontMode]*Front{}}
	var err error
	e.chain, err = NewChain(r, e.pub, c01MaxLen, e.id.ID, linkProto(multihash.SHA2_256, -1))
	if err != nil {
		return nil, err
	}
	for _, m := range []FrontMode{MountPlain, MountDiscovery} {
		f, err := NewFront(c, e.id, e.pub, m, "")
		if err != nil {
			return nil, err
		}
		e.front[m] = f
	}
	e.off = randCid(r)
	return e, nil
}

func (e *c01Env) close() {
	for _, f := range e.front {
		f.Close()
	}
}

func (e *c01Env) run(k c01Case) c01Outcome {
	var out c01Outcome
	front := e.front[k.Mount]
	front.ResetLog()
	front.Pub.SetRoot(e.chain.Cids[k.HeadIdx])
	dst := NewStore()
	for i := 0; i < c01MaxLen; i++ {
		if k.Pre&(1<<uint(i)) != 0 {
			raw, _ := e.pub.Raw(e.chain.Cids[i])
			dst.PutRaw(e.chain.Cids[i], raw)
		}
	}
	hl := &hookLog{}
	ctx, cancelCtx := context.WithCancel(context.Background())
	defer cancelCtx()
	hook := adPrevHook(dst, hl)
	if k.CancelAt > 0 {
		inner, nth := hook, 0
		hook = func(p peer.ID, c cid.Cid, act dagsync.SegmentSyncActions) {
			inner(p, c, act)
			if nth++; nth == k.CancelAt {
				cancelCtx()
			}
		}
	}
	opts := []dagsync.Option{dagsync.BlockHook(hook), dagsync.StrictAdsSelector(k.Strict)}
	if k.AdsDepth != 0 {
		opts = append(opts, dagsync.AdsDepthLimit(k.AdsDepth))
	}
	if k.FirstSync != 0 {
		opts = append(opts, dagsync.FirstSyncDepth(k.FirstSync))
	}
	if k.SegSub != 0 {
		opts = append(opts, dagsync.SegmentDepthLimit(k.SegSub))
	}
	if k.StopKind == "last-known" {
		stop := e.chain.Cids[k.StopIdx]
		opts = append(opts, dagsync.WithLastKnownSync(func(p peer.ID) (cid.Cid, bool) {
			if p == e.id.ID {
				return stop, true
			}
			return cid.Undef, false
		}))
	}
	s, err := newSubscriber(dst, opts...)
	if err != nil {
		out.err = err
		return out
	}
	evs, cancel := s.OnSyncFinished()
	defer cancel()
	if k.StopKind == "latest-set" {
		_ = s.SetLatestSync(e.id.ID, e.chain.Cids[k.StopIdx])
	}
	var so []dagsync.SyncOption
	if !k.Queried {
		so = append(so, dagsync.WithHeadAdCid(e.chain.Cids[k.HeadIdx]))
	}
	switch k.StopKind {
	case "stop-cid":
		so = append(so, dagsync.WithStopAdCid(e.chain.Cids[k.StopIdx]))
	case "stop-cid-offchain":
		so = append(so, dagsync.WithStopAdCid(e.off))
	}
	if k.Resync {
		so = append(so, dagsync.WithAdsResync(true))
	}
	if k.Scoped != 0 {
		so = append(so, dagsync.ScopedDepthLimit(k.Scoped))
	}
	if k.SegScoped != 0 {
		so = append(so, dagsync.ScopedSegmentDepthLimit(k.SegScoped))
	}
	out.ret, out.err = s.SyncAdChain(ctx, front.AddrInfo(), so...)
	out.hooks = idxList(e.chain, hl.list())
	for _, q := range BlockRequests(front.Log()) {
		if q == "head" {
			continue
		}
		c, err := cid.Decode(q)
		if err != nil {
			out.reqs = append(out.reqs, -2)
			continue
		}
		out.reqs = append(out.reqs, e.chain.Pos(c))
	}
	if l := s.GetLatestSync(e.id.ID); l != nil {
		out.latest = l.(cidlink.Link).Cid
	}
	// closing the subscriber closes the listener channel after the queued events:
	// reading to the end is a deterministic way to know whether an event was emitted
	s.Close()
	for ev := range evs {
		out.gotEvent, out.count = true, ev.Count
	}
	for _, i := range out.hooks {
		if i >= 0 && !dst.Has(e.chain.Cids[i]) {
			out.missing = append(out.missing, i)
		}
	}
	return out
}

func runC01(c *vf.Ctx) {
	if c.Thorough() {
		c01MaxLen = 9
	}
	c01Ads(c)
	c01Entries(c)
}

func c01Ads(c *vf.Ctx) {
	const sub = "ad-chain"
	if !c.Active(sub) {
		return
	}
	env, err := newC01Env(c, c.Rand(sub, -1))
	if err != nil {
		c.Fail(sub, -1, "harness-env", err.Error(), nil)
		return
	}
	defer env.close()
	n := c.N(4000, 400000)
	for i := 0; i < n; i++ {
		if !c.Mine(sub, i) {
			continue
		}
		r := c.Rand(sub, i)
		k := c01Gen(r)
		c.Cur(sub, i, k.String())
		exp, noop, depth, stopIdx := c01Expect(k)
		var o, twin c01Outcome
		wit := func() any {
			return map[string]any{"case": k.String(), "expected_blocks_newest_first": exp, "hooks": o.hooks, "requests": o.reqs, "returned": o.ret.String(),
				"error": fmt.Sprint(o.err), "latest": o.latest.String(), "event_count": o.count, "twin_hooks(seg off, nothing prestored)": twin.hooks}
		}
		c.Guard(sub, i, wit, func() {
			o = env.run(k)
			// twin: same call, segmentation disabled, nothing pre-stored
			k2 := k
			k2.SegSub, k2.SegScoped, k2.Pre, k2.CancelAt = 0, 0, 0, 0
			twin = env.run(k2)
			if o.err != nil && k.CancelAt > 0 && errors.Is(o.err, context.Canceled) {
				c.Inc("syncs_failed_by_cancellation_from_the_hook") // nothing is claimed about a failed sync here (C04 does)
				return
			}
			if k.CancelAt > 0 {
				c.Inc("syncs_successful_although_cancelled_from_the_hook")
			}
			if o.err != nil {
				c.Fail(sub, i, "sync-failed", o.err.Error(), wit())
				return
			}
			head := env.chain.Cids[k.HeadIdx]
			if !o.ret.Equals(head) {
				c.Fail(sub, i, "returned-head-differs", o.ret.String(), wit())
			}
			if fmt.Sprint(o.hooks) != fmt.Sprint(exp) && !(len(o.hooks) == 0 && len(exp) == 0) {
				key := "hooks-differ-from-model"
				if len(o.hooks) > len(exp) {
					key = "hooks-too-many"
					// classify what extra blocks were reported
					for _, h := range o.hooks {
						if stopIdx >= 0 && h >= 0 && h <= stopIdx && stopIdx < k.HeadIdx {
							key = "hooks-include-stop-block-or-older"
						}
					}
					if depth > 0 && int64(len(o.hooks)) > depth && key == "hooks-too-many" {
						key = "hooks-exceed-depth-limit"
					}
				} else if len(o.hooks) < len(exp) {
					key = "hooks-too-few"
				}
				c.Fail(sub, i, key, fmt.Sprintf("hooks %v, model %v", o.hooks, exp), wit())
			}
			// requests: exactly the expected blocks that were not pre-stored, in order
			var expReq []int
			for _, x := range exp {
				if k.Pre&(1<<uint(x)) == 0 {
					expReq = append(expReq, x)
				}
			}
			if fmt.Sprint(o.reqs) != fmt.Sprint(expReq) && !(len(o.reqs) == 0 && len(expReq) == 0) {
				key := "requests-differ-from-model"
				for _, q := range o.reqs {
					if q >= 0 && k.Pre&(1<<uint(q)) != 0 {
						key = "prestored-block-requested"
					}
					if q >= 0 && stopIdx >= 0 && stopIdx < k.HeadIdx && q <= stopIdx {
						key = "stop-block-or-older-requested"
					}
				}
				c.Fail(sub, i, key, fmt.Sprintf("requests %v, model %v", o.reqs, expReq), wit())
			}
			if len(o.missing) > 0 {
				c.Fail(sub, i, "reported-block-not-in-store", fmt.Sprint(o.missing), wit())
			}
			// notification and latest-synced
			if k.Queried && !noop {
				if !o.gotEvent || o.count != len(exp) {
					c.Fail(sub, i, "syncfinished-count-differs", fmt.Sprintf("event=%v count=%d want %d", o.gotEvent, o.count, len(exp)), wit())
				}
				if !k.Resync && !o.latest.Equals(head) {
					c.Fail(sub, i, "latest-not-head-after-sync", o.latest.String(), wit())
				}
			}
			if !k.Queried {
				// explicit head: latest is not touched
				want := cid.Undef
				if k.StopKind == "latest-set" || k.StopKind == "last-known" {
					want = env.chain.Cids[k.StopIdx]
				}
				if !k.Resync && !o.latest.Equals(want) && !(k.StopKind == "last-known" && o.latest.Equals(cid.Undef)) {
					c.Fail(sub, i, "latest-changed-by-explicit-head-sync", fmt.Sprintf("%s want %s", o.latest, want), wit())
				}
				if o.gotEvent {
					c.Fail(sub, i, "event-for-explicit-head-sync", "", wit())
				}
			}
			// invariance under segment size and pre-stored subset
			if twin.err != nil || fmt.Sprint(twin.hooks) != fmt.Sprint(o.hooks) || twin.count != o.count || !twin.ret.Equals(o.ret) || !twin.latest.Equals(o.latest) || twin.gotEvent != o.gotEvent {
				c.Fail(sub, i, "result-depends-on-segment-size-or-prestored", fmt.Sprintf("hooks %v count %d latest %s vs twin hooks %v count %d latest %s err %v", o.hooks, o.count, o.latest, twin.hooks, twin.count, twin.latest, twin.err), wit())
			}
		})
		c.Eval(2)
		// coverage
		seg := k.SegScoped
		if seg == 0 {
			seg = k.SegSub
		}
		nontrivial := len(exp) > 0 && ((stopIdx >= 0 && stopIdx < k.HeadIdx) || (depth > 0 && int(depth) <= k.HeadIdx) || (seg > 0 && int(seg) < len(exp)) || k.Pre != 0)
		if nontrivial {
			c.Distinct(sub, fmt.Sprint(k.HeadIdx, k.Queried, k.StopKind, k.StopIdx, k.Resync, depth, k.AdsDepth != 0, k.FirstSync != 0, k.Scoped != 0, seg, k.SegScoped != 0, k.Pre))
		}
		if seg > 0 && len(exp) > 0 {
			c.Inc("segmented_cases")
			if stopIdx >= 0 && stopIdx < k.HeadIdx && int64(k.HeadIdx-stopIdx)%seg == 0 {
				c.Inc("segment_ends_exactly_on_stop_block")
			}
			if depth > 0 && depth%seg != 0 && int64(len(exp)) == depth {
				c.Inc("depth_not_multiple_of_segment")
			}
		}
		if depth > 0 && int(depth) == len(exp) {
			c.Inc("depth_limit_binding")
		}
		if noop {
			c.Inc("stop_equals_head")
		}
		if k.Pre != 0 {
			c.Inc("with_prestored_blocks")
		}
		if k.Mount == MountDiscovery {
			c.Inc("discovery_mount")
		}
		if c.WantSample(sub) && nontrivial && seg > 0 {
			c.Sample(sub, wit())
		}
	}
}

// ---- entries variants ---------------------------------------------------------------------

type c01EntCase struct {
	Kind      string // entries | one | hamt
	L         int
	EntDepth  int64
	Scoped    int64
	SegSub    int64
	Pre       uint
	HeadIdx   int
}

func (k c01EntCase) String() string {
	return fmt.Sprintf("%s L=%d head=%d entdepth=%d scoped=%d segsub=%d pre=%09b", k.Kind, k.L, k.HeadIdx, k.EntDepth, k.Scoped, k.SegSub, k.Pre)
}

func chunkNextHook(dst *Store, log *hookLog) dagsync.BlockHookFunc {
	return func(p peer.ID, c cid.Cid, act dagsync.SegmentSyncActions) {
		log.mu.Lock()
		log.calls = append(log.calls, c)
		log.mu.Unlock()
		raw, ok := dst.Raw(c)
		if !ok {
			act.FailSync(fmt.Errorf("hooked block %s not in the store", c))
			return
		}
		ch, err := schema.BytesToEntryChunk(c, raw)
		if err != nil {
			// not an entry chunk (tree node): no next
			return
		}
		if ch.Next == nil {
			act.SetNextSyncCid(cid.Undef)
		} else {
			act.SetNextSyncCid(ch.Next.(cidlink.Link).Cid)
		}
	}
}

// buildTree stores a small link tree without shared children; returns root and the
// pre-order (traversal order) list of CIDs.
func buildTree(r *rand.Rand, st *Store, depth int, counter *int) (cid.Cid, []cid.Cid) {
	nKids := 0
	if depth > 0 {
		nKids = r.Intn(3)
	}
	var kids []cid.Cid
	var order []cid.Cid
	for k := 0; k < nKids; k++ {
		c, o := buildTree(r, st, depth-1, counter)
		kids = append(kids, c)
		order = append(order, o...)
	}
	*counter++
	id := *counter
	nd := fluent.MustBuildMap(basicnode.Prototype.Map, 2, func(ma fluent.MapAssembler) {
		ma.AssembleEntry("id").AssignInt(int64(id))
		ma.AssembleEntry("kids").CreateList(int64(len(kids)), func(la fluent.ListAssembler) {
			for _, k := range kids {
				la.AssembleValue().AssignLink(cidlink.Link{Cid: k})
			}
		})
	})
	l, err := st.Lsys.Store(ipld.LinkContext{}, linkProto(multihash.SHA2_256, -1), nd)
	if err != nil {
		panic(err)
	}
	root := l.(cidlink.Link).Cid
	return root, append([]cid.Cid{root}, order...)
}

func c01Entries(c *vf.Ctx) {
	const sub = "entries"
	if !c.Active(sub) {
		return
	}
	r0 := c.Rand(sub, -1)
	pub := NewStore()
	id := Keys()["ed25519"][2]
	chain, err := NewEntryChain(r0, pub, c01MaxLen, linkProto(multihash.SHA2_256, -1))
	if err != nil {
		c.Fail(sub, -1, "harness-env", err.Error(), nil)
		return
	}
	front, err := NewFront(c, id, pub, MountPlain, "")
	if err != nil {
		c.Fail(sub, -1, "harness-env", err.Error(), nil)
		return
	}
	defer front.Close()
	n := c.N(1500, 150000)
	for i := 0; i < n; i++ {
		if !c.Mine(sub, i) {
			continue
		}
		r := c.Rand(sub, i)
		k := c01EntCase{Kind: []string{"entries", "entries", "entries", "one", "hamt"}[r.Intn(5)], HeadIdx: r.Intn(c01MaxLen)}
		k.L = k.HeadIdx + 1
		lim := func() int64 { return int64(1 + r.Intn(k.L+1)) }
		if k.Kind == "entries" {
			switch r.Intn(5) {
			case 0:
			case 1:
				k.EntDepth = lim()
			case 2:
				k.Scoped = lim()
			case 3:
				k.EntDepth, k.Scoped = lim(), lim()
			default:
				k.EntDepth, k.Scoped = lim(), -1
			}
			if r.Intn(2) == 0 {
				k.SegSub = lim()
			}
		} else if r.Intn(2) == 0 {
			// the single-entry and all-links variants must not depend on the subscriber's segment size either
			k.SegSub = int64(1 + r.Intn(3))
		}
		if r.Intn(2) == 0 {
			k.Pre = uint(r.Intn(1 << uint(k.L)))
		}
		c.Cur(sub, i, k.String())
		var exp []cid.Cid
		var root cid.Cid
		var universe []cid.Cid
		switch k.Kind {
		case "entries":
			depth := k.EntDepth
			if k.Scoped != 0 {
				depth = k.Scoped
			}
			for x := k.HeadIdx; x >= 0; x-- {
				if depth > 0 && int64(len(exp)) >= depth {
					break
				}
				exp = append(exp, chain.Cids[x])
			}
			root, universe = chain.Cids[k.HeadIdx], chain.Cids
		case "one":
			root, universe = chain.Cids[k.HeadIdx], chain.Cids
			exp = []cid.Cid{root}
		case "hamt":
			cnt := 0
			var order []cid.Cid
			root, order = buildTree(r, pub, 2, &cnt)
			exp, universe = order, order
		}
		dst := NewStore()
		pre := map[string]bool{}
		for x, u := range universe {
			if x < 16 && k.Pre&(1<<uint(x)) != 0 {
				raw, _ := pub.Raw(u)
				dst.PutRaw(u, raw)
				pre[u.String()] = true
			}
		}
		hl := &hookLog{}
		opts := []dagsync.Option{dagsync.BlockHook(chunkNextHook(dst, hl))}
		if k.EntDepth != 0 {
			opts = append(opts, dagsync.EntriesDepthLimit(k.EntDepth))
		}
		if k.SegSub != 0 {
			opts = append(opts, dagsync.SegmentDepthLimit(k.SegSub))
		}
		var reqs []string
		wit := func() any {
			var es, hs []string
			for _, e := range exp {
				es = append(es, e.String())
			}
			for _, h := range hl.list() {
				hs = append(hs, h.String())
			}
			return map[string]any{"case": k.String(), "expected": es, "hooks": hs, "requests": reqs}
		}
		c.Guard(sub, i, wit, func() {
			s, err := newSubscriber(dst, opts...)
			if err != nil {
				c.Fail(sub, i, "harness-subscriber", err.Error(), nil)
				return
			}
			defer s.Close()
			// in a third of the cases the subscriber has synced other entries before, with a depth limit given for
			// that call alone: it applies to that call alone
			if i%3 == 1 {
				if och, err := NewEntryChain(r, pub, 3, linkProto(multihash.SHA2_256, -1)); err == nil {
					_ = s.SyncEntries(context.Background(), front.AddrInfo(), och.Head(), dagsync.ScopedDepthLimit([]int64{1, 2, -1}[r.Intn(3)]))
					hl.reset()
					c.Inc("entries_syncs_preceded_by_a_sync_with_its_own_depth_limit")
				}
			}
			front.ResetLog()
			var so []dagsync.SyncOption
			if k.Scoped != 0 {
				so = append(so, dagsync.ScopedDepthLimit(k.Scoped))
			}
			switch k.Kind {
			case "entries":
				err = s.SyncEntries(context.Background(), front.AddrInfo(), root, so...)
			case "one":
				err = s.SyncOneEntry(context.Background(), front.AddrInfo(), root)
			case "hamt":
				err = s.SyncHAMTEntries(context.Background(), front.AddrInfo(), root)
			}
			reqs = BlockRequests(front.Log())
			if err != nil {
				c.Fail(sub, i, "sync-failed:"+k.Kind, err.Error(), wit())
				return
			}
			got := hl.list()
			same := len(got) == len(exp)
			for x := 0; same && x < len(got); x++ {
				same = got[x].Equals(exp[x])
			}
			if !same {
				key := "hooks-differ-from-model:" + k.Kind
				if len(got) > len(exp) {
					key = "hooks-too-many:" + k.Kind
				} else if len(got) < len(exp) {
					key = "hooks-too-few:" + k.Kind
				}
				c.Fail(sub, i, key, fmt.Sprintf("%d hooks, model %d", len(got), len(exp)), wit())
			}
			var expReq []string
			for _, e := range exp {
				if !pre[e.String()] {
					expReq = append(expReq, e.String())
				}
			}
			if strings.Join(reqs, ",") != strings.Join(expReq, ",") {
				key := "requests-differ-from-model:" + k.Kind
				for _, q := range reqs {
					if pre[q] {
						key = "prestored-block-requested:" + k.Kind
					}
				}
				c.Fail(sub, i, key, fmt.Sprintf("requests %v model %v", reqs, expReq), wit())
			}
			for _, e := range exp {
				if !dst.Has(e) {
					c.Fail(sub, i, "reported-block-not-in-store:"+k.Kind, e.String(), wit())
					break
				}
			}
			// entries syncs never touch the latest-synced advertisement
			if l := s.GetLatestSync(id.ID); l != nil {
				c.Fail(sub, i, "entries-sync-set-latest", l.String(), wit())
			}
		})
		c.Eval(1)
		c.Inc("entries_kind_" + k.Kind)
		if len(exp) > 1 || k.Pre != 0 {
			c.Distinct(sub, k.String(), fmt.Sprint(len(exp)))
		}
		if c.WantSample(sub) && k.Kind == "hamt" && len(exp) > 2 {
			c.Sample(sub, wit())
		}
	}
}
