package props

import (
	"math/rand"
	"runtime"
	"strconv"
	"strings"
	"sync"
	"time"

	"github.com/ipfs/go-cid"
	"github.com/ipni/go-libipni/dagsync"
	"github.com/libp2p/go-libp2p/core/peer"

	"verif/harness/vf"
)

// tapEv is one observation made at a verif tap point of the subscriber.
type tapEv struct {
	T     int64
	Point string
	Peer  peer.ID
	Cid   cid.Cid
	G     int
	Aux   cid.Cid // extra observation made inside the tap (e.g. latest-synced at sync.enter)
}

// tapLog records tap events with the single logical clock and injects seeded
// delays at the tap points. Its own state is mutex protected and it never
// calls back into the library except through onPoint (read-only getters).
type tapLog struct {
	c   *vf.Ctx
	mu  sync.Mutex
	evs []tapEv
	r   *rand.Rand
	// delayAt: probability (per mille) of a delay at a point; absent = default
	delayPermille int
	noDelay       map[string]bool
	onPoint       func(point string, p peer.ID, c cid.Cid) cid.Cid
	hold          map[string]chan struct{} // points currently gated: the tap blocks until the channel is closed
	reached       map[string]chan struct{} // closed when a gated point is first reached
	once          map[string]bool          // gate holds only the first goroutine to arrive
}

func goroutineID() int {
	var buf [64]byte
	n := runtime.Stack(buf[:], false)
	f := strings.Fields(string(buf[:n]))
	if len(f) >= 2 {
		id, _ := strconv.Atoi(f[1])
		return id
	}
	return -1
}

func installTap(c *vf.Ctx, seed int64, delayPermille int) *tapLog {
	tl := &tapLog{c: c, r: rand.New(rand.NewSource(seed)), delayPermille: delayPermille, noDelay: map[string]bool{},
		hold: map[string]chan struct{}{}, reached: map[string]chan struct{}{}, once: map[string]bool{}}
	dagsync.SetVerifTap(func(point string, p peer.ID, cd cid.Cid) {
		var aux cid.Cid
		if tl.onPoint != nil {
			aux = tl.onPoint(point, p, cd)
		}
		g := goroutineID()
		tl.mu.Lock()
		tl.evs = append(tl.evs, tapEv{T: c.Tick(), Point: point, Peer: p, Cid: cd, G: g, Aux: aux})
		d := 0
		if tl.delayPermille > 0 && !tl.noDelay[point] && tl.r.Intn(1000) < tl.delayPermille {
			d = 1 + tl.r.Intn(6)
		}
		gate := tl.hold[point]
		if gate != nil {
			if rc := tl.reached[point]; rc != nil {
				select {
				case <-rc:
				default:
					close(rc)
				}
			}
			if tl.once[point] {
				delete(tl.hold, point) // later arrivals pass
			}
		}
		tl.mu.Unlock()
		if gate != nil {
			<-gate
		}
		switch {
		case d == 0:
		case d <= 3:
			for k := 0; k < d; k++ {
				runtime.Gosched()
			}
		default:
			time.Sleep(time.Duration(d*d*20) * time.Microsecond)
		}
	})
	return tl
}

func (tl *tapLog) uninstall() { dagsync.SetVerifTap(nil) }

// gate makes the next arrivals at point block until release() is called;
// reached is closed when the first goroutine arrives.
func (tl *tapLog) gate(point string) (reached <-chan struct{}, release func()) {
	g := make(chan struct{})
	rc := make(chan struct{})
	tl.mu.Lock()
	tl.hold[point] = g
	tl.reached[point] = rc
	tl.mu.Unlock()
	var once sync.Once
	return rc, func() {
		once.Do(func() {
			tl.mu.Lock()
			delete(tl.hold, point)
			delete(tl.reached, point)
			tl.mu.Unlock()
			close(g)
		})
	}
}

// gateOnce is gate, but only the first goroutine to arrive is held.
func (tl *tapLog) gateOnce(point string) (reached <-chan struct{}, release func()) {
	tl.mu.Lock()
	tl.once[point] = true
	tl.mu.Unlock()
	rc, rel := tl.gate(point)
	return rc, func() {
		rel()
		tl.mu.Lock()
		delete(tl.once, point)
		tl.mu.Unlock()
	}
}

func (tl *tapLog) events() []tapEv {
	tl.mu.Lock()
	defer tl.mu.Unlock()
	return append([]tapEv(nil), tl.evs...)
}

// snapshot returns the number of events per point, and their total, as of one instant (conditions over several
// counters are evaluated on one snapshot, never on counters read one after the other while goroutines run).
func (tl *tapLog) snapshot() (map[string]int, int) {
	tl.mu.Lock()
	defer tl.mu.Unlock()
	m := map[string]int{}
	for _, e := range tl.evs {
		m[e.Point]++
	}
	return m, len(tl.evs)
}

func (tl *tapLog) count(point string) int {
	tl.mu.Lock()
	defer tl.mu.Unlock()
	n := 0
	for _, e := range tl.evs {
		if e.Point == point {
			n++
		}
	}
	return n
}

// mark appends a harness event (client-boundary call / return etc.) to the same log.
func (tl *tapLog) mark(point string, p peer.ID, cd cid.Cid) int64 {
	g := goroutineID()
	tl.mu.Lock()
	t := tl.c.Tick()
	tl.evs = append(tl.evs, tapEv{T: t, Point: point, Peer: p, Cid: cd, G: g})
	tl.mu.Unlock()
	return t
}
