package props

import (
	"github.com/libp2p/go-libp2p/core/peer"
	"bytes"
	"encoding/hex"
	"fmt"
	"math/rand"

	"github.com/ipfs/go-cid"
	"github.com/ipld/go-ipld-prime"
	"github.com/ipld/go-ipld-prime/codec/dagcbor"
	"github.com/ipld/go-ipld-prime/codec/dagjson"
	cidlink "github.com/ipld/go-ipld-prime/linking/cid"
	"github.com/ipld/go-ipld-prime/node/basicnode"
	"github.com/ipld/go-ipld-prime/storage/memstore"
	"github.com/ipni/go-libipni/ingest/schema"
	"github.com/multiformats/go-multihash"

	"verif/harness/vf"
)

func init() { Registry["C13"] = runC13 }

func linkEq(a, b ipld.Link) bool {
	if a == nil || b == nil {
		return a == nil && b == nil
	}
	return a.(cidlink.Link).Cid.Equals(b.(cidlink.Link).Cid)
}

func strsEq(a, b []string) bool {
	if len(a) != len(b) {
		return false
	}
	for i := range a {
		if a[i] != b[i] {
			return false
		}
	}
	return true
}

// adDiff returns "" when the two ads are equal (nil ~ empty for lists/bytes,
// optional parts must agree on presence).
func adDiff(a, b *schema.Advertisement) string {
	switch {
	case !linkEq(a.PreviousID, b.PreviousID):
		return "PreviousID"
	case a.Provider != b.Provider:
		return "Provider"
	case !strsEq(a.Addresses, b.Addresses):
		return "Addresses"
	case !bytes.Equal(a.Signature, b.Signature):
		return "Signature"
	case !linkEq(a.Entries, b.Entries):
		return "Entries"
	case !bytes.Equal(a.ContextID, b.ContextID):
		return "ContextID"
	case !bytes.Equal(a.Metadata, b.Metadata):
		return "Metadata"
	case a.IsRm != b.IsRm:
		return "IsRm"
	case (a.ExtendedProvider == nil) != (b.ExtendedProvider == nil):
		return "ExtendedProvider presence"
	}
	if a.ExtendedProvider != nil {
		x, y := a.ExtendedProvider, b.ExtendedProvider
		if x.Override != y.Override {
			return "ExtendedProvider.Override"
		}
		if len(x.Providers) != len(y.Providers) {
			return "ExtendedProvider.Providers length"
		}
		for i := range x.Providers {
			p, q := x.Providers[i], y.Providers[i]
			if p.ID != q.ID || !strsEq(p.Addresses, q.Addresses) || !bytes.Equal(p.Metadata, q.Metadata) || !bytes.Equal(p.Signature, q.Signature) {
				return fmt.Sprintf("ExtendedProvider.Providers[%d]", i)
			}
		}
	}
	return ""
}

func chunkDiff(a, b *schema.EntryChunk) string {
	if len(a.Entries) != len(b.Entries) {
		return "Entries length"
	}
	for i := range a.Entries {
		if !bytes.Equal(a.Entries[i], b.Entries[i]) {
			return fmt.Sprintf("Entries[%d]", i)
		}
	}
	if !linkEq(a.Next, b.Next) {
		return "Next"
	}
	return ""
}

// c13GenAd: all combinations of optional parts come from the case index bits.
func c13GenAd(r *rand.Rand, bits int) *schema.Advertisement {
	ids := allIdents()
	main := ids[r.Intn(len(ids))]
	a := &schema.Advertisement{
		Provider:  main.ID.String(),
		Addresses: genAddrs(r, r.Intn(6)),
		Signature: rbytes(r, r.Intn(100)),
		Entries:   cidlink.Link{Cid: randCid(r)},
		ContextID: rbytes(r, pickLen(r, 64, 0, 64)),
		Metadata:  rbytes(r, pickLen(r, 1024, 0, 1024)),
		IsRm:      bits&1 != 0,
	}
	if bits&2 != 0 {
		a.PreviousID = cidlink.Link{Cid: randCid(r)}
	}
	if bits&4 != 0 {
		a.Entries = schema.NoEntries
	}
	if bits&8 != 0 {
		ep := &schema.ExtendedProvider{Override: bits&16 != 0}
		if bits&32 != 0 {
			for k := 1 + r.Intn(4); k > 0; k-- {
				ep.Providers = append(ep.Providers, schema.Provider{ID: ids[r.Intn(len(ids))].ID.String(), Addresses: genAddrs(r, r.Intn(3)), Metadata: rbytes(r, r.Intn(30)), Signature: rbytes(r, r.Intn(80))})
			}
		}
		a.ExtendedProvider = ep
	}
	if r.Intn(6) == 0 {
		// identities written in the CID text form of a peer ID: strings like any other, to be kept as written
		if pid, err := peer.Decode(a.Provider); err == nil {
			a.Provider = peer.ToCid(pid).String()
		}
		if a.ExtendedProvider != nil {
			for k := range a.ExtendedProvider.Providers {
				if pid, err := peer.Decode(a.ExtendedProvider.Providers[k].ID); err == nil && r.Intn(2) == 0 {
					a.ExtendedProvider.Providers[k].ID = peer.ToCid(pid).String()
				}
			}
		}
	}
	if bits&64 != 0 { // unusual strings
		a.Provider = []string{"", "not-a-peer-id", "日本語", "a\"b\\c\n", "\x00\x01"}[r.Intn(5)]
		if len(a.Addresses) > 0 {
			a.Addresses[0] = []string{"", "é/ü", "\"quoted\"", "/"}[r.Intn(4)]
		}
	}
	return a
}

func c13GenChunk(r *rand.Rand, withNext bool) *schema.EntryChunk {
	e := &schema.EntryChunk{}
	n := []int{0, 1, 2, 5, 50}[r.Intn(5)]
	for k := 0; k < n; k++ {
		// incl. functions whose code needs a multi-byte varint (blake2b-256 0xb220, md5 0xd5) and digests
		// longer than 127 bytes (identity), whose length needs one
		code := []uint64{multihash.SHA2_256, multihash.SHA2_512, multihash.IDENTITY, multihash.SHA1, multihash.SHA3_256, multihash.DBL_SHA2_256,
			multihash.BLAKE2B_MIN + 31, multihash.MD5, multihash.KECCAK_256, multihash.BLAKE3, multihash.IDENTITY}[r.Intn(11)]
		dlen := r.Intn(40)
		if code == multihash.IDENTITY && r.Intn(2) == 0 {
			dlen = 128 + r.Intn(200)
		}
		mh, err := multihash.Sum(rbytes(r, dlen), code, -1)
		if err != nil {
			continue
		}
		e.Entries = append(e.Entries, mh)
	}
	if withNext {
		e.Next = cidlink.Link{Cid: randCid(r)}
	}
	return e
}

func encodeNode(n ipld.Node, codec uint64) ([]byte, error) {
	var buf bytes.Buffer
	var err error
	if codec == cid.DagJSON {
		err = dagjson.Encode(n, &buf)
	} else {
		err = dagcbor.Encode(n, &buf)
	}
	return buf.Bytes(), err
}

func cidFor(codec uint64, data []byte) cid.Cid {
	mh, _ := multihash.Sum(data, multihash.SHA2_256, -1)
	return cid.NewCidV1(codec, mh)
}

func newMemLsys() (ipld.LinkSystem, *memstore.Store) {
	ls := cidlink.DefaultLinkSystem()
	st := &memstore.Store{}
	ls.SetReadStorage(st)
	ls.SetWriteStorage(st)
	return ls, st
}

func runC13(c *vf.Ctx) {
	c13Ads(c)
	c13Chunks(c)
	c13Hostile(c)
}

func c13Ads(c *vf.Ctx) {
	const sub = "ad-roundtrip"
	if !c.Active(sub) {
		return
	}
	n := c.N(128*12, 128*600)
	for i := 0; i < n; i++ {
		if !c.Mine(sub, i) {
			continue
		}
		r := c.Rand(sub, i)
		bits := i % 128
		ad := c13GenAd(r, bits)
		c.Cur(sub, i, fmt.Sprintf("bits=%07b", bits))
		wit := func() any { return adWitness(ad, map[string]any{"option_bits": fmt.Sprintf("%07b", bits)}) }
		c.Guard(sub, i, wit, func() {
			node, err := ad.ToNode()
			if err != nil {
				c.Fail(sub, i, "tonode-error", err.Error(), wit())
				return
			}
			for _, codec := range []uint64{cid.DagJSON, cid.DagCBOR} {
				rt, enc, err := adCodecRoundTrip(ad, codec)
				if err != nil {
					c.Fail(sub, i, "roundtrip-error", fmt.Sprintf("codec %#x: %v", codec, err), wit())
					continue
				}
				if d := adDiff(ad, rt); d != "" {
					c.Fail(sub, i, "roundtrip-differs:"+d, fmt.Sprintf("codec %#x", codec), wit())
				}
				// encoding is stable: re-encoding the decoded value gives the same bytes
				n2, err := rt.ToNode()
				if err == nil {
					enc2, _ := encodeNode(n2, codec)
					if !bytes.Equal(enc, enc2) {
						c.Fail(sub, i, "reencode-differs", fmt.Sprintf("codec %#x", codec), wit())
					}
				}
				// what a decode returns belongs to the caller: changed in place, it does not change what the next
				// decode of the same block returns; and a decode goes by the bytes it is given (the CID argument is
				// documented as not checked against them)
				{
					k := cidFor(codec, enc)
					first, err1 := schema.BytesToAdvertisement(k, enc)
					if err1 == nil {
						for x := range first.Addresses {
							first.Addresses[x] = "/changed"
						}
						for x := range first.Signature {
							first.Signature[x] ^= 0xff
						}
						for x := range first.ContextID {
							first.ContextID[x] ^= 0xff
						}
						for x := range first.Metadata {
							first.Metadata[x] ^= 0xff
						}
						if first.ExtendedProvider != nil {
							first.ExtendedProvider.Override = !first.ExtendedProvider.Override
							for x := range first.ExtendedProvider.Providers {
								first.ExtendedProvider.Providers[x].ID = "changed"
							}
						}
						again, err2 := schema.BytesToAdvertisement(k, enc)
						if err2 != nil {
							c.Fail(sub, i, "roundtrip-error:second-decode", fmt.Sprintf("codec %#x: %v", codec, err2), wit())
						} else if d := adDiff(ad, &again); d != "" {
							c.Fail(sub, i, "second-decode-of-a-block-differs:"+d, fmt.Sprintf("codec %#x: the result of the first decode was changed in place by its owner", codec), wit())
						}
						// another block decoded under the same CID argument
						other := c13GenAd(r, bits^2)
						if on, err := other.ToNode(); err == nil {
							if oenc, err := encodeNode(on, codec); err == nil && !bytes.Equal(oenc, enc) {
								if od, err := schema.BytesToAdvertisement(k, oenc); err == nil {
									if d := adDiff(other, &od); d != "" {
										c.Fail(sub, i, "decode-does-not-go-by-the-bytes-given:"+d, fmt.Sprintf("codec %#x", codec), wit())
									}
								}
							}
						}
						c.Inc("blocks_decoded_again_after_the_first_result_was_changed")
					}
				}
				// generic prototype then Unwrap == typed prototype
				nb := basicnode.Prototype.Any.NewBuilder()
				if codec == cid.DagJSON {
					err = dagjson.Decode(nb, bytes.NewReader(enc))
				} else {
					err = dagcbor.Decode(nb, bytes.NewReader(enc))
				}
				if err != nil {
					c.Fail(sub, i, "generic-decode-error", err.Error(), wit())
					continue
				}
				ga, err := schema.UnwrapAdvertisement(nb.Build())
				if err != nil {
					c.Fail(sub, i, "generic-unwrap-error", err.Error(), wit())
					continue
				}
				if d := adDiff(ga, rt); d != "" {
					c.Fail(sub, i, "generic-vs-typed-differs:"+d, "", wit())
				}
			}
			// storing the same value twice yields the same CID; loading gives it back
			ls, _ := newMemLsys()
			l1, err := ls.Store(ipld.LinkContext{}, schema.Linkproto, node)
			if err != nil {
				c.Fail(sub, i, "store-error", err.Error(), wit())
				return
			}
			node2, _ := cloneAd(ad).ToNode()
			l2, err := ls.Store(ipld.LinkContext{}, schema.Linkproto, node2)
			if err != nil || !linkEq(l1, l2) {
				c.Fail(sub, i, "cid-unstable", fmt.Sprintf("%v vs %v (%v)", l1, l2, err), wit())
			}
			ln, err := ls.Load(ipld.LinkContext{}, l1, schema.AdvertisementPrototype)
			if err != nil {
				c.Fail(sub, i, "load-typed-error", err.Error(), wit())
				return
			}
			la, err := schema.UnwrapAdvertisement(ln)
			if err != nil || adDiff(la, ad) != "" {
				c.Fail(sub, i, "load-typed-differs", fmt.Sprint(err), wit())
			}
			gn, err := ls.Load(ipld.LinkContext{}, l1, basicnode.Prototype.Any)
			if err != nil {
				c.Fail(sub, i, "load-generic-error", err.Error(), wit())
				return
			}
			ga, err := schema.UnwrapAdvertisement(gn)
			if err != nil || adDiff(ga, ad) != "" {
				c.Fail(sub, i, "load-generic-differs", fmt.Sprint(err), wit())
			}
		})
		c.Eval(1)
		c.Distinct(sub, fmt.Sprint(bits))
		if c.WantSample(sub) && bits&40 == 40 {
			c.Sample(sub, wit())
		}
	}
}

func c13Chunks(c *vf.Ctx) {
	const sub = "chunk-roundtrip"
	if !c.Active(sub) {
		return
	}
	n := c.N(6000, 80000)
	for i := 0; i < n; i++ {
		if !c.Mine(sub, i) {
			continue
		}
		r := c.Rand(sub, i)
		ch := c13GenChunk(r, i%2 == 0)
		if i%500 == 7 {
			// a chunk of the size providers really publish (16384 sha2-256 multihashes: ~0.6 MB as DAG-CBOR, over a
			// megabyte as DAG-JSON)
			ch.Entries = ch.Entries[:0]
			for k := 0; k < 16384; k++ {
				mh, _ := multihash.Sum(rbytes(r, 8), multihash.SHA2_256, -1)
				ch.Entries = append(ch.Entries, mh)
			}
			c.Inc("full_size_entry_chunks")
		}
		c.Cur(sub, i, fmt.Sprintf("entries=%d next=%v", len(ch.Entries), ch.Next != nil))
		wit := func() any {
			var es []string
			for _, e := range ch.Entries {
				if len(es) == 64 {
					es = append(es, fmt.Sprintf("… %d entries in all", len(ch.Entries)))
					break
				}
				es = append(es, hex.EncodeToString(e))
			}
			nx := ""
			if ch.Next != nil {
				nx = ch.Next.String()
			}
			return map[string]any{"entries_hex": es, "next": nx}
		}
		c.Guard(sub, i, wit, func() {
			node, err := ch.ToNode()
			if err != nil {
				c.Fail(sub, i, "tonode-error", err.Error(), wit())
				return
			}
			for _, codec := range []uint64{cid.DagJSON, cid.DagCBOR} {
				enc, err := encodeNode(node, codec)
				if err != nil {
					c.Fail(sub, i, "encode-error", err.Error(), wit())
					continue
				}
				rt, err := schema.BytesToEntryChunk(cidFor(codec, enc), enc)
				if err != nil {
					c.Fail(sub, i, "roundtrip-error", fmt.Sprintf("codec %#x: %v", codec, err), wit())
					continue
				}
				if d := chunkDiff(ch, &rt); d != "" {
					c.Fail(sub, i, "roundtrip-differs:"+d, fmt.Sprintf("codec %#x", codec), wit())
				}
				nb := basicnode.Prototype.Any.NewBuilder()
				if codec == cid.DagJSON {
					err = dagjson.Decode(nb, bytes.NewReader(enc))
				} else {
					err = dagcbor.Decode(nb, bytes.NewReader(enc))
				}
				if err != nil {
					c.Fail(sub, i, "generic-decode-error", err.Error(), wit())
					continue
				}
				gc, err := schema.UnwrapEntryChunk(nb.Build())
				if err != nil || chunkDiff(gc, ch) != "" {
					c.Fail(sub, i, "generic-vs-typed-differs", fmt.Sprint(err), wit())
				}
			}
			ls, _ := newMemLsys()
			l1, err := ls.Store(ipld.LinkContext{}, schema.Linkproto, node)
			node2, _ := (&schema.EntryChunk{Entries: append([]multihash.Multihash(nil), ch.Entries...), Next: ch.Next}).ToNode()
			l2, err2 := ls.Store(ipld.LinkContext{}, schema.Linkproto, node2)
			if err != nil || err2 != nil || !linkEq(l1, l2) {
				c.Fail(sub, i, "cid-unstable", fmt.Sprint(err, err2), wit())
				return
			}
			gn, err := ls.Load(ipld.LinkContext{}, l1, basicnode.Prototype.Any)
			if err == nil {
				gc, err := schema.UnwrapEntryChunk(gn)
				if err != nil || chunkDiff(gc, ch) != "" {
					c.Fail(sub, i, "load-generic-differs", fmt.Sprint(err), wit())
				}
			} else {
				c.Fail(sub, i, "load-generic-error", err.Error(), wit())
			}
		})
		c.Eval(1)
		c.Distinct(sub, fmt.Sprint(len(ch.Entries), ch.Next != nil))
		if c.WantSample(sub) && len(ch.Entries) > 0 && len(ch.Entries) < 4 {
			c.Sample(sub, wit())
		}
	}
}

func c13Hostile(c *vf.Ctx) {
	const sub = "hostile"
	if !c.Active(sub) {
		return
	}
	n := c.N(150000, 5000000)
	for i := 0; i < n; i++ {
		if !c.Mine(sub, i) {
			continue
		}
		r := c.Rand(sub, i)
		codec := []uint64{cid.DagJSON, cid.DagCBOR}[r.Intn(2)]
		isAd := r.Intn(3) != 0
		var a, b []byte
		if isAd {
			n1, _ := c13GenAd(r, r.Intn(64)).ToNode()
			n2, _ := c13GenAd(r, r.Intn(64)).ToNode()
			a, _ = encodeNode(n1, codec)
			b, _ = encodeNode(n2, codec)
		} else {
			n1, _ := c13GenChunk(r, r.Intn(2) == 0).ToNode()
			n2, _ := c13GenChunk(r, r.Intn(2) == 0).ToNode()
			a, _ = encodeNode(n1, codec)
			b, _ = encodeNode(n2, codec)
		}
		if len(a) > 600 && r.Intn(2) == 0 {
			a = a[:600+r.Intn(len(a)-600)]
		}
		in, kind := vf.Mutate(r, a, b)
		if r.Intn(40) == 0 {
			// what an HTTP server answers when it has nothing to say: a few bytes of white space, a lone token
			in = []byte([]string{"\n", " ", "\r\n", "\t", "  \n", "\n\n\n", "null", "{", "[", "\"", "\xef\xbb\xbf", "{}", "[]", "\x00", "\xa0", "\x80", "\xff"}[r.Intn(17)])
			kind = "blank-or-lone-token"
			c.Inc("hostile_blank_or_lone_token_inputs")
		}
		c.Cur(sub, i, fmt.Sprintf("%s codec=%#x ad=%v %s", kind, codec, isAd, hex.EncodeToString(in)))
		wit := func() any {
			return map[string]any{"input_hex": hex.EncodeToString(in), "codec": fmt.Sprintf("%#x", codec), "as_advertisement": isAd, "mutation": kind}
		}
		k := cidFor(codec, in)
		c.Guard(sub, i, wit, func() {
			var typedErr, genErr error
			var reencOK = true
			var why string
			var tAd, gAd *schema.Advertisement
			var tCh, gCh *schema.EntryChunk
			if isAd {
				ad, err := schema.BytesToAdvertisement(k, in)
				typedErr = err
				if err == nil {
					tAd = &ad
					nd, err := ad.ToNode()
					if err != nil {
						reencOK, why = false, "ToNode: "+err.Error()
					} else if _, err := encodeNode(nd, codec); err != nil {
						reencOK, why = false, "encode: "+err.Error()
					}
				}
			} else {
				ch, err := schema.BytesToEntryChunk(k, in)
				typedErr = err
				if err == nil {
					tCh = &ch
					nd, err := ch.ToNode()
					if err != nil {
						reencOK, why = false, "ToNode: "+err.Error()
					} else if _, err := encodeNode(nd, codec); err != nil {
						reencOK, why = false, "encode: "+err.Error()
					}
				}
			}
			if !reencOK {
				c.Fail(sub, i, "accepted-value-not-reencodable", why, wit())
			}
			// generic path: must not panic either; when BOTH paths accept the block they
			// must yield the same value. (Accept/reject disagreement on hostile bytes is not
			// a violation: the property only asks for error-or-value per path. It is counted.)
			nb := basicnode.Prototype.Any.NewBuilder()
			if codec == cid.DagJSON {
				genErr = dagjson.Decode(nb, bytes.NewReader(in))
			} else {
				genErr = dagcbor.Decode(nb, bytes.NewReader(in))
			}
			if genErr == nil {
				if isAd {
					gAd, genErr = schema.UnwrapAdvertisement(nb.Build())
				} else {
					gCh, genErr = schema.UnwrapEntryChunk(nb.Build())
				}
			}
			if (typedErr == nil) != (genErr == nil) {
				c.Inc("typed_generic_accept_disagreement_observed")
			}
			if typedErr == nil && genErr == nil {
				if isAd {
					if d := adDiff(tAd, gAd); d != "" {
						c.Fail(sub, i, "typed-generic-value-differs:"+d, "", wit())
					}
				} else if d := chunkDiff(tCh, gCh); d != "" {
					c.Fail(sub, i, "typed-generic-value-differs:"+d, "", wit())
				}
				c.Inc("hostile_accepted_by_both")
			}
			if typedErr == nil {
				c.Inc("hostile_accepted")
				c.Distinct(sub, kind, fmt.Sprint(codec, isAd))
			} else {
				c.Inc("hostile_rejected")
			}
		})
		c.Eval(1)
		c.Inc("mut_" + kind)
	}
}
