package props

import (
	"context"
	"fmt"
	"math/rand"
	"sort"
	"strings"
	"sync"
	"sync/atomic"
	"time"

	"github.com/ipfs/go-cid"
	"github.com/ipni/go-libipni/dagsync"
	"github.com/libp2p/go-libp2p/core/peer"
	"github.com/multiformats/go-multihash"

	"verif/harness/vf"
)

func init() { Registry["C15"] = runC15 }

var c15ExplicitPoints = []string{"none", "stop.read", "sync.enter", "front", "sync.exit", "event.emit.begin", "dist.forward"}
var c15AnnouncePoints = []string{"none", "watch.recv", "watch.swap.spawn", "async.enter", "async.locked", "async.sem", "pending.taken", "sync.enter", "front", "sync.exit", "event.emit.begin"}

var c15Hangs atomic.Int64

func runC15(c *vf.Ctx) {
	const sub = "close"
	if !c.Active(sub) {
		return
	}
	n := c.N(300, 25000)
	ids := allIdents()
	for i := 0; i < n; i++ {
		if !c.Mine(sub, i) || c15Hangs.Load() >= 3 {
			continue
		}
		r := c.Rand(sub, i)
		c15One(c, sub, i, r, ids)
	}
}

// httpClientGoroutines counts the goroutines that net/http keeps per open client connection.
func httpClientGoroutines() int {
	return strings.Count(vf.AllStacks(), "net/http.(*persistConn).readLoop")
}

// pubsubGoroutines counts the goroutines that run go-libp2p-pubsub code.
func pubsubGoroutines() int {
	n := 0
	for _, g := range strings.Split(vf.AllStacks(), "\n\n") {
		if strings.Contains(g, "go-libp2p-pubsub.") {
			n++
		}
	}
	return n
}

func c15One(c *vf.Ctx, sub string, i int, r *rand.Rand, ids []Ident) {
	httpBefore := httpClientGoroutines()
	announced := r.Intn(2) == 0
	var point string
	if announced {
		point = c15AnnouncePoints[i%len(c15AnnouncePoints)]
	} else {
		point = c15ExplicitPoints[i%len(c15ExplicitPoints)]
	}
	closers := 1 + r.Intn(4)
	extraAnn := r.Intn(4)
	nlist := r.Intn(4)
	delay := []int{0, 200}[r.Intn(2)]
	explicitKind := []string{"SyncAdChain", "SyncAdChain", "SyncEntries", "SyncOneEntry", "SyncHAMTEntries"}[r.Intn(5)]
	if announced {
		explicitKind = ""
	}
	maxAsync := 0
	if r.Intn(3) == 0 {
		maxAsync = 1 + r.Intn(5)/4 // mostly 1: the interesting limit
	}
	if explicitKind != "" && explicitKind != "SyncAdChain" && (point == "stop.read" || point == "event.emit.begin" || point == "dist.forward") {
		point = "front" // entries syncs have no stop point and emit no notification
	}
	desc := fmt.Sprintf("sync=%s close-starts-at=%s closers=%d extra-announcements=%d listeners=%d tap-delay=%d/1000 max-async=%d",
		map[bool]string{true: "announce-triggered", false: "explicit " + explicitKind}[announced], point, closers, extraAnn, nlist, delay, maxAsync)
	c.Cur(sub, i, desc)
	id := ids[i%len(ids)]
	pst := NewStore()
	chain, err := NewChain(r, pst, 3, id.ID, linkProto(multihash.SHA2_256, -1))
	if err != nil {
		c.Fail(sub, i, "harness-env", err.Error(), nil)
		return
	}
	front, err := NewFront(c, id, pst, MountPlain, "")
	if err != nil {
		c.Fail(sub, i, "harness-env", err.Error(), nil)
		return
	}
	defer front.Close()
	front.Pub.SetRoot(chain.Head())
	entChain, err := NewEntryChain(r, pst, 3, linkProto(multihash.SHA2_256, -1))
	if err != nil {
		c.Fail(sub, i, "harness-env", err.Error(), nil)
		return
	}
	// a second publisher for the racing announcements
	id2 := ids[(i+5)%len(ids)]
	pst2 := NewStore()
	chain2, _ := NewChain(r, pst2, 2, id2.ID, linkProto(multihash.SHA2_256, -1))
	front2, err := NewFront(c, id2, pst2, MountPlain, "")
	if err != nil {
		c.Fail(sub, i, "harness-env", err.Error(), nil)
		return
	}
	defer front2.Close()
	front2.Pub.SetRoot(chain2.Head())

	tl := installTap(c, r.Int63(), delay)
	defer tl.uninstall()
	dst := NewStore()
	var actMu sync.Mutex
	type act struct {
		T    int64
		What string
	}
	var acts []act
	note := func(what string) {
		actMu.Lock()
		acts = append(acts, act{c.Tick(), what})
		actMu.Unlock()
	}
	dst.OnPut = func(key string) { note("store-write " + key) }
	// in some explicit cases the block hook, once Close has begun, calls an explicit sync entry point for ANOTHER
	// publisher (an application reacting to an advertisement by fetching something): that call must come back, or
	// the sync that Close is waiting for never ends
	nested := !announced && explicitKind == "SyncAdChain" && point == "front" && r.Intn(2) >= 0
	var nestedOnce atomic.Bool
	var sp atomic.Pointer[dagsync.Subscriber]
	ent2, _ := NewEntryChain(r, pst2, 1, linkProto(multihash.SHA2_256, -1))
	hook := func(p peer.ID, cd cid.Cid, _ dagsync.SegmentSyncActions) {
		note("hook " + cd.String())
		// (only from hooks of the first publisher: a sync of the second publisher called from that publisher's own hook
		// would wait for the lock its caller holds, with or without Close)
		if nested && p == id.ID && ent2 != nil && tl.count("close.begin") > 0 && nestedOnce.CompareAndSwap(false, true) {
			if sub := sp.Load(); sub != nil {
				_ = sub.SyncOneEntry(context.Background(), front2.AddrInfo(), ent2.Head())
				c.Inc("explicit_call_from_the_hook_of_a_sync_close_waits_for")
			}
		}
	}
	sopts := []dagsync.Option{dagsync.RecvAnnounce(""), dagsync.BlockHook(hook)}
	if maxAsync > 0 {
		sopts = append(sopts, dagsync.MaxAsyncConcurrency(maxAsync))
	}
	// in some cases the subscriber lives on a libp2p host and joins a gossip topic of its own: the pubsub instance it
	// creates for that is part of what Close has to shut down (the host is the application's and stays up)
	ownTopic := r.Intn(6) == 0
	var s *dagsync.Subscriber
	pubsubBefore := 0
	if ownTopic {
		h, err := newHost()
		if err != nil {
			c.Fail(sub, i, "harness-env", err.Error(), nil)
			return
		}
		defer h.Close()
		pubsubBefore = pubsubGoroutines()
		sopts[0] = dagsync.RecvAnnounce(fmt.Sprintf("/verif/c15/%d", i))
		s, err = dagsync.NewSubscriber(h, dst.Lsys, sopts...)
	} else {
		s, err = newSubscriber(dst, sopts...)
	}
	if err != nil {
		c.Fail(sub, i, "harness-subscriber", err.Error(), nil)
		return
	}
	sp.Store(s)
	wit := func() any {
		var lines []string
		evs := tl.events()
		sort.Slice(evs, func(a, b int) bool { return evs[a].T < evs[b].T })
		for _, e := range evs {
			lines = append(lines, fmt.Sprintf("%d g%d %s", e.T, e.G, e.Point))
		}
		actMu.Lock()
		for _, a := range acts {
			lines = append(lines, fmt.Sprintf("%d activity %s", a.T, a.What))
		}
		actMu.Unlock()
		sort.Slice(lines, func(a, b int) bool {
			var x, y int64
			fmt.Sscan(lines[a], &x)
			fmt.Sscan(lines[b], &y)
			return x < y
		})
		if len(lines) > 300 {
			lines = lines[len(lines)-300:]
		}
		return map[string]any{"config": desc, "log": lines}
	}
	// listeners
	type lst struct {
		ch     <-chan dagsync.SyncFinished
		cancel context.CancelFunc
		n      atomic.Int64
		closed chan struct{}
	}
	var ls []*lst
	for x := 0; x < nlist; x++ {
		l := &lst{closed: make(chan struct{})}
		l.ch, l.cancel = s.OnSyncFinished()
		ls = append(ls, l)
		stalled := r.Intn(2) == 0
		go func(l *lst, stalled bool) {
			defer close(l.closed)
			if stalled {
				time.Sleep(5 * time.Millisecond)
			}
			for range l.ch {
				l.n.Add(1)
			}
		}(l, stalled)
	}
	// gate the sync at the chosen point
	var reached <-chan struct{}
	release := func() {}
	switch point {
	case "none":
	case "front":
		g := make(chan struct{})
		rc := make(chan struct{})
		var once, once2 sync.Once
		front.Plan = func(ev ReqEvent) *Fault {
			if ev.Rsrc == "head" {
				return nil
			}
			once.Do(func() { close(rc) })
			return &Fault{Gate: g, Label: "held for Close"}
		}
		reached = rc
		release = func() { once2.Do(func() { close(g) }) }
	default:
		reached, release = tl.gate(point)
	}
	defer release()
	// the sync
	syncDone := make(chan struct{})
	var syncErr error
	var syncCall, syncRet int64
	if announced {
		close(syncDone)
		if err := s.Announce(context.Background(), chain.Head(), front.AddrInfo()); err != nil {
			c.Fail(sub, i, "announce-error", err.Error(), wit())
			release()
			s.Close()
			return
		}
	} else {
		go func() {
			defer close(syncDone)
			syncCall = tl.mark("client.explicit.call", id.ID, cid.Undef)
			switch explicitKind {
			case "SyncEntries":
				syncErr = s.SyncEntries(context.Background(), front.AddrInfo(), entChain.Head())
			case "SyncOneEntry":
				syncErr = s.SyncOneEntry(context.Background(), front.AddrInfo(), entChain.Head())
			case "SyncHAMTEntries":
				syncErr = s.SyncHAMTEntries(context.Background(), front.AddrInfo(), entChain.Head())
			default:
				_, syncErr = s.SyncAdChain(context.Background(), front.AddrInfo())
			}
			syncRet = tl.mark("client.explicit.ret", id.ID, cid.Undef)
			c.Inc("explicit_running_" + explicitKind)
		}()
	}
	if reached != nil {
		select {
		case <-reached:
			c.Inc("close_point_reached_" + point)
		case <-time.After(20 * time.Second):
			// the point is not on this sync's path in this schedule (e.g. coalesced): close anyway
			c.Inc("close_point_not_reached")
		}
	} else if !announced {
		<-syncDone // "none": Close after the sync completed
	}
	// a second explicit sync of the same publisher, queued behind the running (gated) one when Close starts
	queuedDone := make(chan struct{})
	queuedKind := ""
	var queuedErr error
	queuedParked := false
	if !announced && point != "none" && r.Intn(3) == 0 {
		queuedKind = []string{"SyncAdChain", "SyncAdChain-given-head", "SyncEntries", "SyncOneEntry", "SyncHAMTEntries"}[r.Intn(5)]
		go func() {
			defer close(queuedDone)
			tl.mark("client.explicit.call", id.ID, cid.Undef)
			switch queuedKind {
			case "SyncEntries":
				queuedErr = s.SyncEntries(context.Background(), front.AddrInfo(), entChain.Head())
			case "SyncOneEntry":
				queuedErr = s.SyncOneEntry(context.Background(), front.AddrInfo(), entChain.Head())
			case "SyncHAMTEntries":
				queuedErr = s.SyncHAMTEntries(context.Background(), front.AddrInfo(), entChain.Head())
			case "SyncAdChain-given-head":
				_, queuedErr = s.SyncAdChain(context.Background(), front.AddrInfo(), dagsync.WithHeadAdCid(chain.Head()), dagsync.WithAdsResync(true))
			default:
				_, queuedErr = s.SyncAdChain(context.Background(), front.AddrInfo())
			}
			tl.mark("client.explicit.ret", id.ID, cid.Undef)
		}()
		// it gets as far as the publisher's lock (or not: both are fine). Where it is seen waiting for that lock
		// inside the library before Close is called, it has been accepted: Close waits for it, and it must be
		// allowed to run and finish like the sync it is queued behind
		pdl := time.Now().Add(time.Duration(300+r.Intn(1200)) * time.Microsecond)
		if r.Intn(2) == 0 {
			pdl = time.Now().Add(2 * time.Second)
		}
		for time.Now().Before(pdl) && !queuedParked {
			for _, g := range strings.Split(vf.AllStacks(), "\n\n") {
				if strings.Contains(strings.SplitN(g, "\n", 2)[0], "[sync.Mutex.Lock") && (strings.Contains(g, "dagsync.(*Subscriber).SyncAdChain(") || strings.Contains(g, "dagsync.(*Subscriber).syncEntries(")) {
					queuedParked = true
				}
			}
			if !queuedParked {
				time.Sleep(100 * time.Microsecond)
			}
		}
		if queuedParked {
			c.Inc("close_with_second_explicit_sync_waiting_for_the_publishers_lock")
		}
		c.Inc("close_with_second_explicit_sync_queued")
	} else {
		close(queuedDone)
	}
	// with a concurrency limit of 1 and the gated announce-triggered sync holding the slot, park another
	// publisher's handling goroutine on the semaphore before Close starts
	holdsSlot := map[string]bool{"pending.taken": true, "sync.enter": true, "front": true, "sync.exit": true, "event.emit.begin": true}
	if announced && maxAsync == 1 && holdsSlot[point] {
		lockedBefore := tl.count("async.locked")
		if err := s.Announce(context.Background(), chain2.Head(), front2.AddrInfo()); err == nil {
			deadline := time.Now().Add(10 * time.Second)
			for tl.count("async.locked") <= lockedBefore && time.Now().Before(deadline) {
				time.Sleep(100 * time.Microsecond)
			}
			if tl.count("async.locked") > lockedBefore {
				c.Inc("close_with_sync_waiting_for_async_slot")
			}
		}
	}
	// racing activity
	var rwg sync.WaitGroup
	for a := 0; a < extraAnn; a++ {
		rwg.Add(1)
		go func(a int) {
			defer rwg.Done()
			time.Sleep(time.Duration(a*150) * time.Microsecond)
			_ = s.Announce(context.Background(), chain2.Cids[a%len(chain2.Cids)], front2.AddrInfo())
		}(a)
	}
	if nlist > 0 && r.Intn(2) == 0 {
		rwg.Add(1)
		go func() {
			defer rwg.Done()
			ls[0].cancel()
		}()
	}
	// Close callers
	var cwg sync.WaitGroup
	var firstCloseRet atomic.Int64
	closeCall := tl.mark("client.close.call", "", cid.Undef)
	hung := false
	var hmu sync.Mutex
	for k := 0; k < closers; k++ {
		cwg.Add(1)
		go func(k int) {
			defer cwg.Done()
			v, dump := vf.Watch(60*time.Second, func() { _ = s.Close() })
			t := tl.mark("client.close.ret", "", cid.Undef)
			if v == vf.Returned {
				firstCloseRet.CompareAndSwap(0, t)
				return
			}
			hmu.Lock()
			defer hmu.Unlock()
			if !hung {
				hung = true
				c15Hangs.Add(1)
				if v == vf.Hung {
					c.Fail(sub, i, "close-hangs:"+vf.LibFrame(dump), dump, wit())
				} else {
					c.Inconclusive(sub, i, "close-did-not-return", dump, wit())
				}
			}
		}(k)
	}
	// let Close get going, then let the gated sync continue
	cancelChecked := false
	if point != "none" {
		deadline := time.Now().Add(5 * time.Second)
		for tl.count("close.begin") == 0 && time.Now().Before(deadline) {
			time.Sleep(100 * time.Microsecond)
		}
		time.Sleep(time.Duration(r.Intn(400)) * time.Microsecond)
		// an announce-triggered sync that is held before it has fetched anything stays held until Close has stopped
		// the announcement watcher, which is what cancels such syncs: released after that, it must not fetch, store
		// or report a single block. (Close does not need the held sync to get that far.)
		cancellable := map[string]bool{"async.enter": true, "async.locked": true, "async.sem": true, "pending.taken": true, "sync.enter": true, "front": true}
		if announced && cancellable[point] && tl.count("close.begin") > 0 {
			dl := time.Now().Add(30 * time.Second)
			for tl.count("close.receiver.closed") == 0 && time.Now().Before(dl) {
				time.Sleep(200 * time.Microsecond)
			}
			if tl.count("close.receiver.closed") == 0 {
				c15Hangs.Add(1)
				c.Fail(sub, i, "close-waits-for-a-held-announce-sync-instead-of-cancelling-it", "30 s after Close began it has not stopped the announcement watcher while an announce-triggered sync is held at "+point, wit())
			} else {
				cancelChecked = true
			}
		}
	}
	release()
	cwg.Wait()
	rwg.Wait()
	<-syncDone
	if hung {
		return
	}
	if qv, qd := vf.Watch(60*time.Second, func() { <-queuedDone }); qv != vf.Returned {
		c15Hangs.Add(1)
		c.Inconclusive(sub, i, "queued-explicit-sync-did-not-return", qd, wit())
		return
	}
	if queuedParked && queuedErr != nil {
		c.Fail(sub, i, "queued-explicit-sync-aborted-by-close:"+queuedKind, fmt.Sprintf("the call was waiting for the publisher's lock inside the library before Close was called, and returned: %v", queuedErr), wit())
	}
	tc := firstCloseRet.Load()
	// ---- after Close returned --------------------------------------------------------------------------
	// (a) syncs that were running ended before Close returned
	// (the return marks of two goroutines may be recorded in either order, so the refutation must come from
	// inside the library: a tap event of the explicit sync's goroutine after Close returned)
	_ = syncRet
	if !announced && syncCall != 0 && syncCall < closeCall {
		syncG := map[int]bool{}
		for _, e := range tl.events() {
			if e.Point == "client.explicit.call" && e.T < closeCall {
				syncG[e.G] = true
			}
		}
		for _, e := range tl.events() {
			if syncG[e.G] && e.T > tc && !strings.HasPrefix(e.Point, "client.") {
				c.Fail(sub, i, "close-returned-while-explicit-sync-running", fmt.Sprintf("an explicit sync was at %s (tick %d) after Close had returned (tick %d)", e.Point, e.T, tc), wit())
				break
			}
		}
	}
	if !announced && syncCall != 0 && syncCall < closeCall && syncErr != nil {
		c.Fail(sub, i, "running-explicit-sync-failed-because-of-close", syncErr.Error(), wit())
	}
	evs := tl.events()
	enter, exit := map[int]int64{}, map[int]int64{}
	for _, e := range evs {
		switch e.Point {
		case "async.enter":
			enter[e.G] = e.T
		case "async.exit":
			exit[e.G] = e.T
		case "event.emit.begin":
			if e.T > tc {
				c.Fail(sub, i, "notification-emitted-after-close-returned", fmt.Sprintf("%s at %d, Close returned at %d", e.Point, e.T, tc), wit())
			}
		case "dist.forward":
			// the distributor hands an event that was emitted before Close returned to the listener queues
			// asynchronously; that is delivery of an existing notification, not a new one
			if e.T > tc {
				c.Inc("observed_forwarding_of_earlier_event_after_close_returned")
			}
		}
	}
	for g, t := range enter {
		if t < tc && (exit[g] == 0 || exit[g] > tc) {
			c.Fail(sub, i, "close-returned-while-announce-sync-running", fmt.Sprintf("handling goroutine g%d entered@%d exit@%d, Close returned@%d", g, t, exit[g], tc), wit())
		}
	}
	if cancelChecked {
		c.Inc("announce_syncs_held_until_the_watcher_was_stopped")
		actMu.Lock()
		for _, a := range acts {
			if f := strings.Fields(a.What); len(f) == 2 && f[0] == "hook" {
				if cd, err := cid.Decode(f[1]); err == nil && chain.Pos(cd) >= 0 {
					c.Fail(sub, i, "announce-sync-not-cancelled-by-close", fmt.Sprintf("%s at %d: the sync was released only after Close had stopped the watcher, and still fetched and reported blocks", a.What, a.T), wit())
					break
				}
			}
		}
		actMu.Unlock()
		if l := s.GetLatestSync(id.ID); l != nil {
			c.Fail(sub, i, "announce-sync-not-cancelled-by-close", "latest-synced was recorded: "+l.String(), wit())
		}
	}
	// (c) no hook / store write after Close returned: give stragglers a moment to show themselves
	time.Sleep(2 * time.Millisecond)
	actMu.Lock()
	for _, a := range acts {
		if a.T > tc {
			c.Fail(sub, i, "activity-after-close-returned:"+strings.Fields(a.What)[0], fmt.Sprintf("%s at %d, Close returned at %d", a.What, a.T, tc), wit())
			break
		}
	}
	actMu.Unlock()
	// (d) listener channels closed
	for x, l := range ls {
		select {
		case <-l.closed:
		case <-time.After(30 * time.Second):
			c.Fail(sub, i, "listener-channel-open-after-close", fmt.Sprint("listener ", x), wit())
		}
	}
	// (g) every entry point returns promptly on a closed subscriber
	type call struct {
		name string
		f    func()
	}
	pi := front.AddrInfo()
	var lateCancel context.CancelFunc
	mustErr := func(name string, err error) {
		if err == nil {
			c.Fail(sub, i, "sync-entry-point-succeeds-on-closed-subscriber:"+name, name+" returned nil after Close had returned", wit())
		}
	}
	// (blocks the closed subscriber has never fetched, so that a sync that is wrongly performed leaves traces)
	fresh, _ := NewEntryChain(r, pst, 2, linkProto(multihash.SHA2_256, -1))
	calls := []call{
		{"SyncAdChain", func() { _, err := s.SyncAdChain(context.Background(), pi); mustErr("SyncAdChain", err) }},
		{"SyncEntries", func() { mustErr("SyncEntries", s.SyncEntries(context.Background(), pi, fresh.Head())) }},
		{"SyncOneEntry", func() { mustErr("SyncOneEntry", s.SyncOneEntry(context.Background(), pi, fresh.Head())) }},
		{"SyncHAMTEntries", func() { mustErr("SyncHAMTEntries", s.SyncHAMTEntries(context.Background(), pi, fresh.Head())) }},
		{"Announce", func() { _ = s.Announce(context.Background(), chain.Cids[0], pi) }},
		{"GetLatestSync", func() { _ = s.GetLatestSync(id.ID) }},
		{"SetLatestSync", func() { _ = s.SetLatestSync(id.ID, chain.Head()) }},
		{"RemoveHandler", func() { _ = s.RemoveHandler(id.ID) }},
		{"HttpPeerStore", func() { _ = s.HttpPeerStore() }},
		{"OnSyncFinished", func() {
			ch, cn := s.OnSyncFinished()
			lateCancel = cn
			// a listener registered on a closed subscriber must not wait forever either
			select {
			case _, ok := <-ch:
				if ok {
					note("event on listener registered after close")
				}
			case <-time.After(10 * time.Second):
				c.Fail(sub, i, "listener-registered-after-close-never-closed", "", wit())
			}
		}},
		{"cancel(registered-after-close)", func() {
			if lateCancel != nil {
				lateCancel()
			}
		}},
		{"Close", func() { _ = s.Close() }},
	}
	for x, l := range ls {
		l := l
		calls = append(calls, call{fmt.Sprintf("cancel(listener %d)", x), func() { l.cancel() }})
	}
	r.Shuffle(len(calls)-len(ls)-3, func(a, b int) { calls[a], calls[b] = calls[b], calls[a] })
	for _, cl := range calls {
		v, dump := vf.Watch(20*time.Second, cl.f)
		c.Inc("post_close_calls")
		if v == vf.Hung {
			c15Hangs.Add(1)
			c.Fail(sub, i, "call-after-close-hangs:"+strings.SplitN(cl.name, "(", 2)[0]+":"+vf.LibFrame(dump), fmt.Sprintf("%s on a closed subscriber is blocked inside the library and makes no progress\n%s", cl.name, dump), wit())
			return
		}
		if v == vf.Inconclusive {
			c15Hangs.Add(1)
			c.Inconclusive(sub, i, "call-after-close-did-not-return:"+cl.name, dump, wit())
			return
		}
	}
	// calls made on the closed subscriber must not have caused hook calls or store writes either
	actMu.Lock()
	for _, a := range acts {
		if a.T > tc && (strings.HasPrefix(a.What, "hook") || strings.HasPrefix(a.What, "store-write")) {
			c.Fail(sub, i, "activity-after-close-returned:"+strings.Fields(a.What)[0], fmt.Sprintf("%s at %d (caused by a call on the closed subscriber), Close returned at %d", a.What, a.T, tc), wit())
			break
		}
	}
	actMu.Unlock()
	// (e) no goroutine started by the subscriber remains
	var left []string
	for try := 0; try < 200; try++ {
		left = left[:0]
		for _, g := range vf.LibGoroutines("props.(*Front)", "ipnisync.(*Publisher)", "vf.Watch") {
			if strings.Contains(g, "go-libipni/dagsync.") || strings.Contains(g, "go-libipni/announce.") {
				left = append(left, g)
			}
		}
		if len(left) == 0 {
			break
		}
		time.Sleep(5 * time.Millisecond)
	}
	if len(left) > 0 {
		c.Fail(sub, i, "goroutine-left-after-close:"+vf.LibFrame(left[0]), left[0], wit())
	}
	// ... including the pubsub instance that the subscriber created on the application's host
	if ownTopic {
		after := 0
		for try := 0; try < 400; try++ {
			if after = pubsubGoroutines(); after <= pubsubBefore {
				break
			}
			time.Sleep(5 * time.Millisecond)
		}
		if after > pubsubBefore {
			c.Fail(sub, i, "pubsub-goroutines-left-after-close", fmt.Sprintf("%d goroutines of the gossip pubsub before the subscriber was created on the host, %d after Close returned (the host is still up)", pubsubBefore, after), wit())
		} else {
			c.Inc("subscribers_with_their_own_gossip_topic_closed")
		}
	}
	// ... including those that net/http runs for the connections the subscriber's syncs opened and left idle
	httpAfter := 0
	for try := 0; try < 200; try++ {
		if httpAfter = httpClientGoroutines(); httpAfter <= httpBefore {
			break
		}
		time.Sleep(5 * time.Millisecond)
	}
	if httpAfter > httpBefore {
		c.Fail(sub, i, "http-connection-goroutines-left-after-close", fmt.Sprintf("%d connection reader goroutines of the HTTP client before the subscriber was created, %d after Close returned: connections opened by its syncs are still open", httpBefore, httpAfter), wit())
	} else {
		c.Inc("http_client_connections_checked")
	}
	c.Eval(1)
	c.Distinct(sub, fmt.Sprint(announced), point, fmt.Sprint(closers), fmt.Sprint(extraAnn > 0, nlist > 0))
	c.Inc("closers_" + fmt.Sprint(closers))
	if c.WantSample(sub) && point != "none" {
		c.Sample(sub, map[string]any{"config": desc, "close_first_returned_at_tick": tc})
	}
}
