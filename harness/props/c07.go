package props

import (
	"context"
	"fmt"
	"math/rand"
	"sort"
	"strings"
	"sync"
	"sync/atomic"
	"time"

	"github.com/ipni/go-libipni/pcache"
	"github.com/libp2p/go-libp2p/core/peer"

	"verif/harness/vf"
)

func init() { Registry["C07"] = runC07 }

func runC07(c *vf.Ctx) {
	c07Stress(c)
	c07NoWait(c)
	c07MissVsRefresh(c)
}

func vecKey(v []int) string {
	var sb strings.Builder
	for _, x := range v {
		fmt.Fprintf(&sb, "%d,", x)
	}
	return sb.String()
}

// readers racing with refreshes and miss-fetches
func c07Stress(c *vf.Ctx) {
	const sub = "readers-vs-writers"
	if !c.Active(sub) {
		return
	}
	n := c.N(100, 3000)
	pool := pcPeerPool()
	for i := 0; i < n; i++ {
		if !c.Mine(sub, i) {
			continue
		}
		r := c.Rand(sub, i)
		npop := []int{6, 20, 40}[r.Intn(3)]
		stable := pool[:npop]
		advanceAll := r.Intn(3) == 0
		nReaders := 2 + r.Intn(7)
		autoRefresh := r.Intn(3) == 0
		nsrc := 1 + r.Intn(2)
		rounds := 30 + r.Intn(40)
		c.Cur(sub, i, fmt.Sprintf("pop=%d all=%v readers=%d auto=%v sources=%d rounds=%d", npop, advanceAll, nReaders, autoRefresh, nsrc, rounds))
		srcs := make([]*scriptSource, nsrc)
		var psrcs []pcache.ProviderSource
		for k := range srcs {
			srcs[k] = newScriptSource(fmt.Sprintf("src%d", k))
			psrcs = append(psrcs, srcs[k])
		}
		for _, p := range stable {
			for _, s := range srcs {
				s.set(p, 1)
			}
		}
		// providers that are cached at the start and that the sources stop reporting after a few rounds: within
		// the (one hour) time-to-live they stay cached, so no update may make them disappear
		dormant := pool[50:54]
		for _, p := range dormant {
			for _, s := range srcs {
				s.set(p, 1)
			}
		}
		// delay pattern at the publication points
		var tapHits, refreshPubs atomic.Int64
		dr := rand.New(rand.NewSource(r.Int63()))
		var dmu sync.Mutex
		pcache.SetVerifTap(func(point string) {
			if strings.HasPrefix(point, "refresh.publish") {
				refreshPubs.Add(1)
			}
			if strings.Contains(point, "publish") {
				tapHits.Add(1)
				dmu.Lock()
				d := dr.Intn(4)
				dmu.Unlock()
				switch d {
				case 0:
				case 1:
					time.Sleep(50 * time.Microsecond)
				default:
					for k := 0; k < d; k++ {
						runtimeGosched()
					}
				}
			}
		})
		opts := []pcache.Option{pcache.WithSource(psrcs...), pcache.WithTTL(time.Hour)}
		if autoRefresh {
			opts = append(opts, pcache.WithRefreshInterval(time.Millisecond))
		} else {
			opts = append(opts, pcache.WithRefreshInterval(0))
		}
		pc, err := pcache.New(opts...)
		if err != nil {
			c.Fail(sub, i, "pcache-new", err.Error(), nil)
			continue
		}
		// published states of the stable providers (single explicit writer => known exactly)
		var stMu sync.Mutex
		states := map[string]int{vecKey(make1s(npop)): 0}
		cur := make1s(npop)
		var published atomic.Int64 // index of the last state whose Refresh has RETURNED
		var started atomic.Int64   // index of the last state whose Refresh has been CALLED
		stop := make(chan struct{})
		var wg sync.WaitGroup
		var failOnce sync.Once
		var reads, overlapped, listChecks, dormantReads atomic.Int64
		wit := func() any {
			return map[string]any{"population": npop, "advance_all": advanceAll, "readers": nReaders, "auto_refresh": autoRefresh, "sources": nsrc, "rounds": rounds}
		}
		fail := func(key, detail string) {
			failOnce.Do(func() { c.Fail(sub, i, key, detail, wit()) })
		}
		idx := map[peer.ID]int{}
		for k, p := range stable {
			idx[p] = k
		}
		// readers
		for rd := 0; rd < nReaders; rd++ {
			wg.Add(1)
			rr := rand.New(rand.NewSource(r.Int63()))
			go func(rd int) {
				defer wg.Done()
				last := make([]int, npop)
				for {
					select {
					case <-stop:
						return
					default:
					}
					s0 := started.Load()
					p0 := published.Load()
					switch rr.Intn(4) {
					case 0, 1:
						k := rr.Intn(npop)
						pi, err := pc.Get(context.Background(), stable[k])
						if err != nil || pi == nil {
							fail("cached-provider-reported-missing", fmt.Sprintf("Get(%s) = %v, %v although it is reported by every source since before the cache was created", stable[k], pi, err))
							return
						}
						v := versionOf(pi)
						if v < last[k] {
							fail("reader-saw-older-record", fmt.Sprintf("reader %d: provider %d v%d after v%d (Get)", rd, k, v, last[k]))
							return
						}
						last[k] = v
					case 2:
						l := pc.List()
						vec := make([]int, npop)
						seen := 0
						for _, pi := range l {
							if pi == nil {
								fail("list-contains-nil", "")
								return
							}
							if k, ok := idx[pi.AddrInfo.ID]; ok {
								vec[k] = versionOf(pi)
								seen++
							}
						}
						if seen != npop {
							fail("cached-provider-missing-from-list", fmt.Sprintf("List shows %d of %d always-reported providers", seen, npop))
							return
						}
						for k := range vec {
							if vec[k] < last[k] {
								fail("reader-saw-older-record", fmt.Sprintf("reader %d: provider %d v%d after v%d (List)", rd, k, vec[k], last[k]))
								return
							}
							last[k] = vec[k]
						}
						if !autoRefresh {
							// snapshot: the vector must be one of the states published by a refresh that had
							// started before the List returned and had not been superseded before it began
							s1 := started.Load()
							stMu.Lock()
							si, ok := states[vecKey(vec)]
							stMu.Unlock()
							if !ok {
								fail("list-not-a-published-snapshot", fmt.Sprintf("reader %d: List returned versions %v, which no completed or running refresh ever published", rd, vec))
								return
							}
							if int64(si) < p0 || int64(si) > s1 {
								fail("list-snapshot-out-of-window", fmt.Sprintf("state #%d observed, but refresh #%d had completed before the call and only #%d had started when it returned", si, p0, s1))
								return
							}
							listChecks.Add(1)
						}
					case 3:
						if rr.Intn(2) == 0 {
							// a provider the sources no longer report (List only: a lookup could start a source request)
							d := dormant[rr.Intn(len(dormant))]
							found := false
							for _, pi := range pc.List() {
								if pi != nil && pi.AddrInfo.ID == d {
									found = true
								}
							}
							if !found {
								fail("cached-provider-reported-missing", fmt.Sprintf("provider %s, cached since the start and within its time-to-live, is missing from List", d))
								return
							}
							dormantReads.Add(1)
							break
						}
						k := rr.Intn(npop)
						res, err := pc.GetResults(context.Background(), stable[k], []byte("ctx"), []byte("md"))
						if err != nil || len(res) == 0 {
							fail("cached-provider-reported-missing", fmt.Sprintf("GetResults(%s) = %v, %v", stable[k], res, err))
							return
						}
					}
					reads.Add(1)
					if started.Load() != s0 || started.Load() != published.Load() {
						overlapped.Add(1)
					}
				}
			}(rd)
		}
		// miss-fetch goroutine: lookups of unknown providers and of ones that appear at the source
		wg.Add(1)
		go func() {
			defer wg.Done()
			k := 0
			for {
				select {
				case <-stop:
					return
				default:
				}
				p := pool[60+k%50]
				k++
				if k%7 == 0 {
					srcs[0].set(p, 1) // a provider that appears; next miss finds it
				}
				_, _ = pc.Get(context.Background(), p)
				time.Sleep(100 * time.Microsecond)
			}
		}()
		// the writer
		for rnd := 1; rnd <= rounds; rnd++ {
			if rnd == 4 {
				for _, p := range dormant {
					for _, s := range srcs {
						s.del(p)
					}
				}
			}
			next := append([]int(nil), cur...)
			if advanceAll {
				for k := range next {
					next[k] = rnd + 1
				}
			} else {
				for k := 1 + r.Intn(3); k > 0; k-- {
					next[r.Intn(npop)]++
				}
			}
			for k, p := range stable {
				if next[k] != cur[k] {
					// sources may lag one another; the newest wins
					srcs[r.Intn(nsrc)].set(p, next[k])
				}
			}
			stMu.Lock()
			states[vecKey(next)] = rnd
			stMu.Unlock()
			started.Store(int64(rnd))
			pubsBefore := refreshPubs.Load()
			if err := pc.Refresh(context.Background()); err != nil {
				fail("refresh-error", err.Error())
				break
			}
			// Refresh returns nil without refreshing when the write lock was held (by another
			// refresh or by a miss-fetch); only a refresh that reached its publication point
			// is known to have published this round's state
			if refreshPubs.Load() != pubsBefore && !autoRefresh {
				published.Store(int64(rnd))
			} else {
				c.Inc("explicit_refresh_calls_that_did_not_publish")
			}
			cur = next
			if r.Intn(3) == 0 {
				time.Sleep(time.Duration(r.Intn(300)) * time.Microsecond)
			}
		}
		close(stop)
		wg.Wait()
		pcache.SetVerifTap(nil)
		c.Eval(1)
		c.Add("reads", reads.Load())
		c.Add("reads_overlapping_a_refresh", overlapped.Load())
		c.Add("list_snapshot_checks", listChecks.Load())
		c.Add("reads_of_cached_providers_no_longer_reported", dormantReads.Load())
		c.Add("publications", tapHits.Load())
		c.Add("refresh_rounds", int64(rounds))
		c.Distinct(sub, fmt.Sprint(npop, advanceAll, nReaders, autoRefresh, nsrc))
		if c.WantSample(sub) {
			w := wit().(map[string]any)
			w["reads"], w["reads_overlapping_a_refresh"] = reads.Load(), overlapped.Load()
			c.Sample(sub, w)
		}
	}
}

func make1s(n int) []int {
	v := make([]int, n)
	for i := range v {
		v[i] = 1
	}
	return v
}

// readers must finish their cached lookups while a writer is held inside a source call
func c07NoWait(c *vf.Ctx) {
	const sub = "reads-do-not-wait"
	if !c.Active(sub) {
		return
	}
	n := c.N(30, 900)
	pool := pcPeerPool()
	for i := 0; i < n; i++ {
		if !c.Mine(sub, i) {
			continue
		}
		r := c.Rand(sub, i)
		mode := []string{"refresh", "miss-fetch", "auto-refresh"}[i%3]
		npop := 5 + r.Intn(30)
		nReaders := 2 + r.Intn(14)
		c.Cur(sub, i, fmt.Sprintf("%s pop=%d readers=%d", mode, npop, nReaders))
		src := newScriptSource("src0")
		for _, p := range pool[:npop] {
			src.set(p, 1)
		}
		opts := []pcache.Option{pcache.WithSource(src), pcache.WithTTL(time.Hour)}
		if mode == "auto-refresh" {
			opts = append(opts, pcache.WithRefreshInterval(time.Millisecond))
		} else {
			opts = append(opts, pcache.WithRefreshInterval(0))
		}
		pc, err := pcache.New(opts...)
		if err != nil {
			continue
		}
		// a provider no source knows: looked up once, it is remembered as absent (a cached answer like any other)
		absent := pool[95]
		_, _ = pc.Get(context.Background(), absent)
		gate := make(chan struct{})
		entered := make(chan struct{}, 4)
		hold := func(context.Context) error {
			select {
			case entered <- struct{}{}:
			default:
			}
			<-gate
			return nil
		}
		src.mu.Lock()
		switch mode {
		case "refresh", "auto-refresh":
			src.onFetchAll = hold
		case "miss-fetch":
			src.onFetch = func(ctx context.Context, _ peer.ID) error { return hold(ctx) }
		}
		src.mu.Unlock()
		writerDone := make(chan struct{})
		switch mode {
		case "refresh":
			go func() { defer close(writerDone); _ = pc.Refresh(context.Background()) }()
			<-entered
		case "miss-fetch":
			go func() { defer close(writerDone); _, _ = pc.Get(context.Background(), pool[90]) }()
			<-entered
		case "auto-refresh":
			close(writerDone)
			time.Sleep(3 * time.Millisecond) // the interval elapses: the next lookup triggers the refresh
		}
		wit := func() any { return map[string]any{"writer": mode + " held open inside the source", "population": npop, "readers": nReaders} }
		var did atomic.Int64
		verdict, dump := vf.Watch(30*time.Second, func() {
			var wg sync.WaitGroup
			for rd := 0; rd < nReaders; rd++ {
				wg.Add(1)
				go func(rd int) {
					defer wg.Done()
					for k := 0; k < 1000; k++ {
						p := pool[(rd+k)%npop]
						switch k % 3 {
						case 0:
							if pi, err := pc.Get(context.Background(), p); err != nil || pi == nil {
								c.Fail(sub, i, "cached-provider-reported-missing", fmt.Sprint(pi, err), wit())
								return
							}
						case 1:
							if len(pc.List()) < npop {
								c.Fail(sub, i, "cached-provider-missing-from-list", "", wit())
								return
							}
						default:
							if res, err := pc.GetResults(context.Background(), p, nil, []byte("m")); err != nil || len(res) == 0 {
								c.Fail(sub, i, "cached-provider-reported-missing", fmt.Sprint(res, err), wit())
								return
							}
						}
						if k%50 == 7 && mode != "miss-fetch" {
							// (the answer "absent" is cached too; with a miss-fetch held, the same provider would be the one being fetched)
							if pi, err := pc.Get(context.Background(), absent); err != nil || pi != nil {
								c.Fail(sub, i, "cached-absence-not-answered-from-the-cache", fmt.Sprint(pi, err), wit())
								return
							}
							did.Add(1)
						}
						did.Add(1)
					}
				}(rd)
			}
			wg.Wait()
		})
		if verdict != vf.Returned {
			// which goroutines sit in pcache?
			var blocked []string
			for _, g := range vf.LibGoroutines() {
				if strings.Contains(g, "pcache.") && !strings.Contains(g, "scriptSource") {
					blocked = append(blocked, g)
				}
			}
			sort.Strings(blocked)
			c.Fail(sub, i, "readers-wait-for-writer:"+mode, fmt.Sprintf("after 30 s the readers had completed %d of %d cached lookups while the %s was still held open inside the source; released only afterwards\n%s\n%s",
				did.Load(), nReaders*1000, mode, dump, strings.Join(blocked[:min(len(blocked), 3)], "\n\n")), wit())
		}
		close(gate)
		src.mu.Lock()
		src.onFetchAll, src.onFetch = nil, nil
		src.mu.Unlock()
		<-writerDone
		c.Eval(1)
		c.Add("lookups_completed_while_writer_held", did.Load())
		c.Inc("nowait_" + mode)
		c.Distinct(sub, mode, fmt.Sprint(npop, nReaders))
		if c.WantSample(sub) {
			w := wit().(map[string]any)
			w["lookups_completed_before_release"] = did.Load()
			c.Sample(sub, w)
		}
	}
}


// a lookup miss whose source answers late (the answer was decided when the request arrived) overlaps a refresh that
// learns something newer about the same provider: whatever order the two finish in, no reader may see the provider
// go back to the older record or disappear again
func c07MissVsRefresh(c *vf.Ctx) {
	const sub = "late-miss-answer-vs-refresh"
	if !c.Active(sub) {
		return
	}
	n := c.N(60, 4500)
	pool := pcPeerPool()
	for i := 0; i < n; i++ {
		if !c.Mine(sub, i) {
			continue
		}
		r := c.Rand(sub, i)
		scenario := []string{"late-answer-is-an-older-record", "late-answer-is-not-found", "miss-answered-by-the-freshest-source-then-refresh-from-a-lagging-one"}[i%3]
		if scenario == "miss-answered-by-the-freshest-source-then-refresh-from-a-lagging-one" {
			c07MissThenLaggingRefresh(c, sub, i, r, pool)
			continue
		}
		npop := 3 + r.Intn(20)
		c.Cur(sub, i, fmt.Sprintf("%s pop=%d", scenario, npop))
		src := newScriptSource("src0")
		src.answerAtCall = true
		for _, p := range pool[:npop] {
			src.set(p, 1)
		}
		X := pool[100+i%20]
		if scenario == "late-answer-is-an-older-record" {
			src.set(X, 1)
		}
		// (no preload: X is not cached although the source may report it)
		pc, err := pcache.New(pcache.WithSource(src), pcache.WithTTL(time.Hour), pcache.WithRefreshInterval(0), pcache.WithPreload(false))
		if err != nil {
			c.Fail(sub, i, "pcache-new", err.Error(), nil)
			continue
		}
		gate := make(chan struct{})
		entered := make(chan struct{}, 1)
		src.mu.Lock()
		src.onFetch = func(ctx context.Context, pid peer.ID) error {
			if pid == X {
				select {
				case entered <- struct{}{}:
				default:
				}
				<-gate
			}
			return nil
		}
		src.mu.Unlock()
		var steps []string
		wit := func() any { return map[string]any{"scenario": scenario, "population": npop, "steps": steps} }
		// what a reader that only uses List sees of X (List never starts a source request)
		seeX := func() (int, bool) {
			for _, pi := range pc.List() {
				if pi != nil && pi.AddrInfo.ID == X {
					return versionOf(pi), true
				}
			}
			return 0, false
		}
		missDone := make(chan struct{})
		go func() { defer close(missDone); _, _ = pc.Get(context.Background(), X) }()
		select {
		case <-entered:
		case <-time.After(20 * time.Second):
			c.Inconclusive(sub, i, "miss-did-not-reach-the-source", "", nil)
			close(gate)
			continue
		}
		// the source learns something newer; a refresh is requested while the miss is outstanding
		src.set(X, 2)
		refreshDone := make(chan error, 1)
		go func() { refreshDone <- pc.Refresh(context.Background()) }()
		var refreshErr error
		refreshed := false
		select {
		case refreshErr = <-refreshDone:
			refreshed = true
			steps = append(steps, "the refresh completed while the miss was still waiting for its source")
		case <-time.After(30 * time.Millisecond):
			steps = append(steps, "the refresh waits for the outstanding miss")
		}
		maxSeen, seenAny := seeX()
		if seenAny {
			steps = append(steps, fmt.Sprintf("a reader sees X at v%d before the miss's answer arrives", maxSeen))
			c.Inc("newer_record_visible_before_late_answer")
		}
		close(gate)
		<-missDone
		if !refreshed {
			select {
			case refreshErr = <-refreshDone:
			case <-time.After(30 * time.Second):
				c.Fail(sub, i, "refresh-did-not-return-after-miss", "", wit())
				continue
			}
		}
		if refreshErr != nil {
			c.Fail(sub, i, "refresh-error", refreshErr.Error(), wit())
		}
		v, ok := seeX()
		steps = append(steps, fmt.Sprintf("after both finished a reader sees X present=%v v%d", ok, v))
		if seenAny && !ok {
			c.Fail(sub, i, "cached-provider-reported-missing", "X was listed, and is no longer after the late answer of the miss arrived", wit())
		} else if seenAny && v < maxSeen {
			c.Fail(sub, i, "reader-saw-older-record", fmt.Sprintf("X v%d after v%d", v, maxSeen), wit())
		}
		// the refresh completed without error after the source had X at v2
		if refreshErr == nil && (!ok || v != 2) {
			c.Fail(sub, i, "stale-record-after-refresh-overlapping-a-late-miss-answer", fmt.Sprintf("present=%v v%d, the source reported v2 before the refresh was requested", ok, v), wit())
		}
		c.Eval(1)
		c.Inc("late_miss_answer_cases")
		c.Distinct(sub, scenario, fmt.Sprint(npop))
	}
}

// c07MissThenLaggingRefresh: a provider is first learned by a lookup (both sources asked, the fresher record cached);
// then the fresher source stops answering and a refresh hears only the lagging one. A reader that saw the fresher
// record must not be shown the older one afterwards.
func c07MissThenLaggingRefresh(c *vf.Ctx, sub string, i int, r *rand.Rand, pool []peer.ID) {
	npop := 3 + r.Intn(20)
	vNew := 2 + r.Intn(6)
	vOld := 1 + r.Intn(vNew-1)
	fresherFirst := r.Intn(2) == 0
	fails := r.Intn(2) == 0
	c.Cur(sub, i, fmt.Sprintf("miss-then-lagging-refresh pop=%d fresher=v%d lagging=v%d fresher-source-first=%v fresher-source-then=%s", npop, vNew, vOld, fresherFirst, map[bool]string{true: "fails", false: "no longer lists it"}[fails]))
	a, b := newScriptSource("fresh"), newScriptSource("lagging")
	for _, p := range pool[:npop] {
		a.set(p, 1)
		b.set(p, 1)
	}
	X := pool[100+i%20]
	a.set(X, vNew)
	b.set(X, vOld)
	srcs := []pcache.ProviderSource{a, b}
	if !fresherFirst {
		srcs = []pcache.ProviderSource{b, a}
	}
	pc, err := pcache.New(pcache.WithSource(srcs...), pcache.WithTTL(time.Hour), pcache.WithRefreshInterval(0), pcache.WithPreload(false))
	if err != nil {
		c.Fail(sub, i, "pcache-new", err.Error(), nil)
		return
	}
	var steps []string
	wit := func() any { return map[string]any{"scenario": "miss-then-lagging-refresh", "steps": steps} }
	see := func() (int, bool) {
		for _, pi := range pc.List() {
			if pi != nil && pi.AddrInfo.ID == X {
				return versionOf(pi), true
			}
		}
		return 0, false
	}
	pi, err := pc.Get(context.Background(), X)
	if err != nil || pi == nil {
		c.Fail(sub, i, "lookup-of-a-reported-provider-failed", fmt.Sprint(err), wit())
		return
	}
	first := versionOf(pi)
	steps = append(steps, fmt.Sprintf("lookup returned v%d", first))
	if l, ok := see(); ok && l > first {
		first = l
	}
	if fails {
		a.mu.Lock()
		a.failing = true
		a.mu.Unlock()
	} else {
		a.del(X)
	}
	for k := 0; k < 1+r.Intn(3); k++ {
		rerr := pc.Refresh(context.Background())
		l, ok := see()
		g, gerr := pc.Get(context.Background(), X)
		steps = append(steps, fmt.Sprintf("refresh err=%v: listed=%v v%d", rerr, ok, l))
		if !ok || g == nil || gerr != nil {
			c.Fail(sub, i, "cached-provider-reported-missing", "a provider cached by a lookup is gone after a refresh within its time-to-live", wit())
			return
		}
		if l < first || versionOf(g) < first {
			c.Fail(sub, i, "reader-saw-older-record", fmt.Sprintf("v%d (list) / v%d (lookup) after v%d", l, versionOf(g), first), wit())
			return
		}
	}
	c.Eval(1)
	c.Inc("lookups_followed_by_a_refresh_from_a_lagging_source")
	c.Distinct(sub, "miss-then-lagging-refresh", fmt.Sprint(fresherFirst, fails, vNew-vOld))
}
