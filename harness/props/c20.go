package props

import (
	"context"
	"fmt"
	"math/rand"
	"net"
	"net/http"
	"net/url"
	"sort"
	"strings"
	"sync"

	"github.com/ipfs/go-cid"
	cidlink "github.com/ipld/go-ipld-prime/linking/cid"
	"github.com/ipni/go-libipni/dagsync/ipnisync"
	"github.com/ipni/go-libipni/maurl"
	"github.com/ipni/go-libipni/mautil"
	"github.com/libp2p/go-libp2p/core/peer"
	"github.com/multiformats/go-multiaddr"

	"verif/harness/vf"
)

func init() { Registry["C20"] = runC20 }

func runC20(c *vf.Ctx) {
	c20URL(c)
	c20TLS(c)
	c20EndToEnd(c)
	c20Helpers(c)
}

var c20PathAlphabet = []string{
	"a", "b", "Z", "0", "9", "-", ".", "_", "~", // unreserved
	"!", "$", "&", "'", "(", ")", "*", "+", ",", ";", "=", ":", "@", // sub-delims and pchar extras
	" ", "%", "/", "//", "?", "#", "\"", "<", ">", "[", "]", "{", "}", "|", "\\", "^", "`",
	"é", "日本", "%2F", "%25", "%20", "%zz", "+", " ", "a+b", "a b", "x/y",
}

func c20GenPath(r *rand.Rand) string {
	switch r.Intn(12) {
	case 0:
		return ""
	case 1:
		return "/"
	}
	var sb strings.Builder
	sb.WriteString("/")
	n := 1 + r.Intn(8)
	for i := 0; i < n; i++ {
		sb.WriteString(c20PathAlphabet[r.Intn(len(c20PathAlphabet))])
	}
	if r.Intn(5) == 0 {
		sb.WriteString("/")
	}
	return sb.String()
}

func c20GenHost(r *rand.Rand) (host string, kind string) {
	switch r.Intn(3) {
	case 0:
		return fmt.Sprintf("%d.%d.%d.%d", 1+r.Intn(223), r.Intn(256), r.Intn(256), r.Intn(256)), "ip4"
	case 1:
		ip := make(net.IP, 16)
		r.Read(ip)
		ip[0] = 0x20
		if r.Intn(3) == 0 { // many zero groups, exercises :: compression
			for k := 2; k < 14; k++ {
				ip[k] = 0
			}
		}
		if ip.To4() != nil {
			ip[0] = 0x20
		}
		return ip.String(), "ip6"
	default:
		labels := []string{"example", "com", "a", "xn--nxasmq6b", "sub-domain", "Indexer", "cid", "contact", "n0", "x1y2"}
		n := 1 + r.Intn(3)
		var ps []string
		for i := 0; i < n; i++ {
			ps = append(ps, labels[r.Intn(len(labels))])
		}
		return strings.Join(ps, "."), "dns"
	}
}

func c20GenPort(r *rand.Rand) string {
	switch r.Intn(8) {
	case 0, 1:
		return ""
	case 2:
		return []string{"0", "1", "80", "443", "65535", "8080"}[r.Intn(6)]
	default:
		return fmt.Sprint(r.Intn(65536))
	}
}

func c20MakeURL(scheme, host, kind, port, path string) *url.URL {
	h := host
	if kind == "ip6" {
		h = "[" + host + "]"
	}
	if port != "" {
		h += ":" + port
	}
	u := &url.URL{Scheme: scheme, Host: h, Path: path}
	// go through the textual form, as a user-supplied URL would
	pu, err := url.Parse(u.String())
	if err != nil {
		return u
	}
	return pu
}

func c20CheckRoundTrip(c *vf.Ctx, sub string, i int, u *url.URL, kind string) {
	wit := func() any { return map[string]any{"url": u.String(), "decoded_path": u.Path, "host_kind": kind} }
	c.Guard(sub, i, wit, func() {
		ma, err := maurl.FromURL(u)
		if err != nil {
			c.Fail(sub, i, "fromurl-error:"+kind, fmt.Sprintf("%s: %v", u, err), wit())
			return
		}
		// the multiaddr must survive its own binary and text forms (it is sent to others)
		if m2, err := multiaddr.NewMultiaddrBytes(ma.Bytes()); err != nil || !m2.Equal(ma) {
			c.Fail(sub, i, "multiaddr-bytes-unstable", fmt.Sprintf("%s: %v", ma, err), wit())
		}
		if m3, err := multiaddr.NewMultiaddr(ma.String()); err != nil || !m3.Equal(ma) {
			c.Fail(sub, i, "multiaddr-text-unstable", fmt.Sprintf("%s: %v", ma, err), wit())
		}
		u2, err := maurl.ToURL(ma)
		if err != nil {
			c.Fail(sub, i, "tourl-error:"+kind, fmt.Sprintf("%s -> %s: %v", u, ma, err), wit())
			return
		}
		var diffs []string
		if u2.Scheme != u.Scheme {
			diffs = append(diffs, fmt.Sprintf("scheme %q != %q", u2.Scheme, u.Scheme))
		}
		h1, h2 := u.Hostname(), u2.Hostname()
		if kind == "ip6" {
			if !net.ParseIP(h1).Equal(net.ParseIP(h2)) {
				diffs = append(diffs, fmt.Sprintf("host %q != %q", h2, h1))
			}
		} else if h1 != h2 {
			diffs = append(diffs, fmt.Sprintf("host %q != %q", h2, h1))
		}
		if u.Port() != u2.Port() {
			diffs = append(diffs, fmt.Sprintf("port %q != %q", u2.Port(), u.Port()))
		}
		if u.Path != u2.Path {
			diffs = append(diffs, fmt.Sprintf("path %q != %q", u2.Path, u.Path))
		}
		if len(diffs) > 0 {
			key := "roundtrip-differs:" + strings.SplitN(diffs[0], " ", 2)[0]
			c.Fail(sub, i, key, fmt.Sprintf("%s -> %s -> %s : %s", u, ma, u2, strings.Join(diffs, "; ")), wit())
		}
		// the textual URL must also parse back to the same target
		if u3, err := url.Parse(u2.String()); err != nil || u3.Path != u.Path || u3.Hostname() != u2.Hostname() {
			c.Fail(sub, i, "roundtrip-url-text-differs", fmt.Sprintf("%s -> %q: %v", u, u2.String(), err), wit())
		}
	})
}

func c20PathClass(p string) string {
	var cl []string
	for _, t := range []struct{ s, n string }{{" ", "space"}, {"+", "plus"}, {"%", "pct"}, {"//", "dslash"}, {"?", "q"}, {"#", "hash"}} {
		if strings.Contains(p, t.s) {
			cl = append(cl, t.n)
		}
	}
	for _, r := range p {
		if r > 127 {
			cl = append(cl, "utf8")
			break
		}
	}
	if p == "" {
		cl = append(cl, "empty")
	} else if strings.HasSuffix(p, "/") {
		cl = append(cl, "trailing")
	}
	sort.Strings(cl)
	return strings.Join(cl, ",")
}

func c20URL(c *vf.Ctx) {
	const sub = "url-roundtrip"
	if !c.Active(sub) {
		return
	}
	n := c.N(150000, 10000000)
	for i := 0; i < n; i++ {
		if !c.Mine(sub, i) {
			continue
		}
		r := c.Rand(sub, i)
		scheme := []string{"http", "https"}[r.Intn(2)]
		host, kind := c20GenHost(r)
		port := c20GenPort(r)
		path := c20GenPath(r)
		u := c20MakeURL(scheme, host, kind, port, path)
		c.Cur(sub, i, u.String())
		c20CheckRoundTrip(c, sub, i, u, kind)
		// the form older publishers advertise (path in a legacy "httpath" component, written with url.PathEscape): the
		// client must arrive at the same path
		if i%4 == 0 && path != "" && kind != "ip6" {
			legacy := fmt.Sprintf("/%s/%s/tcp/%d/%s/httpath/%s", map[string]string{"ip4": "ip4", "dns": "dns"}[kind], host, 1+r.Intn(65535), scheme, url.PathEscape(path))
			if kind == "ip4" || kind == "dns" {
				if lm, err := multiaddr.NewMultiaddr(legacy); err == nil {
					lu, err := maurl.ToURL(lm)
					if err != nil {
						c.Fail(sub, i, "legacy-httpath-tourl-error", err.Error(), map[string]any{"multiaddr": legacy})
					} else if lu.Path != path || lu.Scheme != scheme {
						c.Fail(sub, i, "legacy-httpath-differs", fmt.Sprintf("path %q scheme %s, advertised path %q scheme %s", lu.Path, lu.Scheme, path, scheme), map[string]any{"multiaddr": legacy})
					}
					c.Inc("legacy_httpath_addresses")
				}
			}
		}
		c.Eval(1)
		pc := c20PathClass(u.Path)
		c.Distinct(sub, scheme, kind, fmt.Sprint(port == ""), pc)
		for _, k := range strings.Split(pc, ",") {
			if k != "" {
				c.Inc("path_" + k)
			}
		}
		c.Inc("host_" + kind)
		if c.WantSample(sub) && pc != "" {
			c.Sample(sub, map[string]any{"url": u.String(), "decoded_path": u.Path})
		}
	}
}

// tls/http and https forms both map to https; plain http maps to http
func c20TLS(c *vf.Ctx) {
	const sub = "tls-forms"
	if !c.Active(sub) {
		return
	}
	n := c.N(10000, 200000)
	for i := 0; i < n; i++ {
		if !c.Mine(sub, i) {
			continue
		}
		r := c.Rand(sub, i)
		host, kind := c20GenHost(r)
		port := 1 + r.Intn(65535)
		var base string
		switch kind {
		case "ip4":
			base = "/ip4/" + host
		case "ip6":
			base = "/ip6/" + host
		default:
			base = []string{"/dns/", "/dns4/", "/dns6/"}[r.Intn(3)] + host
		}
		base += fmt.Sprintf("/tcp/%d", port)
		forms := map[string]string{"/http": "http", "/https": "https", "/tls/http": "https",
			"/tls/sni/pub.example.com/http": "https", "/http/http-path/a%2Fb": "http", "/tls/http/http-path/a%2Fb": "https", "/https/http-path/a": "https"}
		c.Cur(sub, i, base)
		for suffix, want := range forms {
			ma, err := multiaddr.NewMultiaddr(base + suffix)
			if err != nil {
				c.Fail(sub, i, "harness-bad-multiaddr", base+suffix+": "+err.Error(), nil)
				continue
			}
			wit := func() any { return map[string]any{"multiaddr": ma.String()} }
			c.Guard(sub, i, wit, func() {
				u, err := maurl.ToURL(ma)
				if err != nil {
					c.Fail(sub, i, "tourl-error:"+kind, fmt.Sprintf("%s: %v", ma, err), wit())
					return
				}
				if u.Scheme != want {
					c.Fail(sub, i, "tls-form-scheme", fmt.Sprintf("%s -> %s, want scheme %s", ma, u, want), wit())
				}
				if u.Port() != fmt.Sprint(port) {
					c.Fail(sub, i, "tls-form-port", fmt.Sprintf("%s -> %s", ma, u), wit())
				}
				hn := u.Hostname()
				if kind == "ip6" {
					if !net.ParseIP(hn).Equal(net.ParseIP(host)) {
						c.Fail(sub, i, "tls-form-host", fmt.Sprintf("%s -> %s", ma, u), wit())
					}
				} else if hn != host {
					c.Fail(sub, i, "tls-form-host", fmt.Sprintf("%s -> %s", ma, u), wit())
				}
			})
			c.Eval(1)
			c.Distinct(sub, kind, suffix)
		}
	}
}

// end to end: what path does a sync client request when given FromURL(publisher URL)?
func c20EndToEnd(c *vf.Ctx) {
	const sub = "end-to-end"
	if !c.Active(sub) {
		return
	}
	var mu sync.Mutex
	var seen []string
	srv := newMemServer(http.HandlerFunc(func(w http.ResponseWriter, r *http.Request) {
		mu.Lock()
		seen = append(seen, r.URL.Path)
		mu.Unlock()
		http.Error(w, "nope", http.StatusTeapot)
	}))
	defer srv.Close()
	su, _ := url.Parse(srv.URL)
	lsys := cidlink.DefaultLinkSystem()
	n := c.N(1500, 40000)
	pid := Keys()["ed25519"][0].ID
	for i := 0; i < n; i++ {
		if !c.Mine(sub, i) {
			continue
		}
		r := c.Rand(sub, i)
		path := c20GenPath(r)
		u := c20MakeURL("http", su.Hostname(), "ip4", su.Port(), path)
		c.Cur(sub, i, u.String())
		wit := func() any { return map[string]any{"publisher_url": u.String(), "decoded_path": u.Path} }
		c.Guard(sub, i, wit, func() {
			ma, err := maurl.FromURL(u)
			if err != nil {
				c.Fail(sub, i, "fromurl-error:ip4", err.Error(), wit())
				return
			}
			mu.Lock()
			seen = seen[:0]
			mu.Unlock()
			s := ipnisync.NewSync(lsys, func(peer.ID, cid.Cid) {})
			syncer, err := s.NewSyncer(peer.AddrInfo{ID: pid, Addrs: []multiaddr.Multiaddr{ma}})
			if err != nil {
				c.Fail(sub, i, "newsyncer-error", err.Error(), wit())
				return
			}
			_, _ = syncer.GetHead(context.Background())
			s.Close()
			mu.Lock()
			got := append([]string(nil), seen...)
			mu.Unlock()
			want := "/" + strings.TrimPrefix(u.JoinPath(ipnisync.IPNIPath, "head").Path, "/")
			// skip the libp2p-http discovery probes; the first ".../head" request is the one
			var first []string
			for _, g := range got {
				if strings.HasSuffix(g, "/head") {
					first = append(first, g)
					break
				}
			}
			got = first
			if len(got) == 0 || got[0] != want {
				c.Fail(sub, i, "endpoint-differs", fmt.Sprintf("publisher at %q (path %q): client requested %q, want %q", u, u.Path, got, want), wit())
			}
		})
		c.Eval(1)
		c.Distinct(sub, c20PathClass(u.Path))
		c.Inc("e2e_requests")
	}
}

// ---- address helpers vs set-theoretic specifications ----------------------------------

type labAddr struct {
	ma     multiaddr.Multiaddr
	http   bool
	class  string // public | private | loopback | unspecified | localhost | dns | other
	source string
}

func c20GenLabAddr(r *rand.Rand) labAddr {
	type tmpl struct {
		base, class string
	}
	oct := func() int { return r.Intn(256) }
	var t tmpl
	switch r.Intn(16) {
	case 14:
		// zoned IPv6: the zone comes first, the address that decides second (few zones, so that lists hold several
		// addresses of one zone)
		z := []string{"eth0", "eth0", "en1"}[r.Intn(3)]
		switch r.Intn(4) {
		case 0:
			t = tmpl{fmt.Sprintf("/ip6zone/%s/ip6/fe80::%x", z, 1+r.Intn(65535)), "private"}
		case 1:
			t = tmpl{fmt.Sprintf("/ip6zone/%s/ip6/2606:4700:%x::%x", z, r.Intn(65536), 1+r.Intn(65535)), "public"}
		case 2:
			t = tmpl{fmt.Sprintf("/ip6zone/%s/ip6/::1", z), "loopback"}
		default:
			t = tmpl{fmt.Sprintf("/ip6zone/%s/ip6/::", z), "unspecified"}
		}
	case 15:
		t = tmpl{fmt.Sprintf("/ip6/fe80::%x", 1+r.Intn(65535)), "private"}
	case 0:
		t = tmpl{fmt.Sprintf("/ip4/%d.%d.%d.%d", []int{8, 1, 93, 151, 52}[r.Intn(5)], oct(), oct(), 1+r.Intn(254)), "public"}
	case 1:
		t = tmpl{fmt.Sprintf("/ip4/10.%d.%d.%d", oct(), oct(), oct()), "private"}
	case 2:
		t = tmpl{fmt.Sprintf("/ip4/192.168.%d.%d", oct(), oct()), "private"}
	case 3:
		t = tmpl{fmt.Sprintf("/ip4/172.%d.%d.%d", 16+r.Intn(16), oct(), oct()), "private"}
	case 4:
		t = tmpl{fmt.Sprintf("/ip4/127.%d.%d.%d", oct(), oct(), 1+r.Intn(254)), "loopback"}
	case 5:
		t = tmpl{"/ip4/0.0.0.0", "unspecified"}
	case 6:
		t = tmpl{"/ip6/::1", "loopback"}
	case 7:
		t = tmpl{"/ip6/::", "unspecified"}
	case 8:
		t = tmpl{fmt.Sprintf("/ip6/fd%02x:%x::%x", oct(), r.Intn(65536), 1+r.Intn(65535)), "private"}
	case 9:
		t = tmpl{fmt.Sprintf("/ip6/2606:4700:%x::%x", r.Intn(65536), 1+r.Intn(65535)), "public"}
	case 10:
		// (host names are case-insensitive and may be written fully qualified with a trailing dot)
		t = tmpl{[]string{"/dns/", "/dns4/", "/dns6/"}[r.Intn(3)] + []string{"localhost", "localhost", "LOCALHOST", "LocalHost", "localhost."}[r.Intn(5)], "localhost"}
	case 11:
		t = tmpl{[]string{"/dns/", "/dns4/", "/dns6/", "/dnsaddr/"}[r.Intn(4)] + []string{"example.com", "cid.contact", "localhost.example.org", "notlocalhost", "http.example.net", "https-gateway.example.org", "httpbin.example.net"}[r.Intn(7)], "dns"}
	case 12:
		t = tmpl{fmt.Sprintf("/ip4/%d.%d.%d.%d", []int{8, 1, 93}[r.Intn(3)], oct(), oct(), 1+r.Intn(254)), "public"}
	default:
		t = tmpl{fmt.Sprintf("/ip4/169.254.%d.%d", oct(), oct()), "private"} // link-local
	}
	s := t.base
	isHTTP := false
	switch r.Intn(9) {
	case 0:
	case 7:
		// (what a URL without a port converts to: no tcp component)
		s += []string{"/http", "/https", "/tls/http"}[r.Intn(3)]
		isHTTP = true
	case 8:
		s += "/https/http-path/cid"
		isHTTP = true
	case 1:
		s += fmt.Sprintf("/tcp/%d", r.Intn(65536))
	case 2:
		s += fmt.Sprintf("/tcp/%d/http", r.Intn(65536))
		isHTTP = true
	case 3:
		s += fmt.Sprintf("/tcp/%d/https", r.Intn(65536))
		isHTTP = true
	case 4:
		s += fmt.Sprintf("/tcp/%d/tls/http", r.Intn(65536))
		isHTTP = true
	case 5:
		s += fmt.Sprintf("/tcp/%d/http/http-path/a%%2Fhttps", r.Intn(65536))
		isHTTP = true
	default:
		s += fmt.Sprintf("/udp/%d/quic-v1", r.Intn(65536))
	}
	ma, err := multiaddr.NewMultiaddr(s)
	if err != nil {
		panic("harness: " + s + ": " + err.Error())
	}
	return labAddr{ma: ma, http: isHTTP, class: t.class, source: s}
}

func maStrings(l []multiaddr.Multiaddr) []string {
	out := make([]string, 0, len(l))
	for _, m := range l {
		if m == nil {
			out = append(out, "<nil>")
		} else {
			out = append(out, m.String())
		}
	}
	return out
}

func sortedCopy(s []string) []string {
	o := append([]string(nil), s...)
	sort.Strings(o)
	return o
}

func c20Helpers(c *vf.Ctx) {
	const sub = "helpers"
	if !c.Active(sub) {
		return
	}
	n := c.N(30000, 1000000)
	for i := 0; i < n; i++ {
		if !c.Mine(sub, i) {
			continue
		}
		r := c.Rand(sub, i)
		ln := r.Intn(7)
		labs := make([]labAddr, ln)
		for k := range labs {
			if k > 0 && r.Intn(4) == 0 {
				labs[k] = labs[r.Intn(k)] // duplicate
			} else {
				labs[k] = c20GenLabAddr(r)
			}
		}
		list := func() []multiaddr.Multiaddr {
			l := make([]multiaddr.Multiaddr, len(labs))
			for k := range labs {
				l[k] = labs[k].ma
			}
			return l
		}
		src := maStrings(list())
		c.Cur(sub, i, strings.Join(src, " "))
		wit := func() any { return map[string]any{"addrs": src} }

		// FindHTTPAddrs: exactly the addresses containing http or https, order kept
		c.Guard(sub, i, wit, func() {
			var want []string
			for _, l := range labs {
				if l.http {
					want = append(want, l.ma.String())
				}
			}
			got := maStrings(mautil.FindHTTPAddrs(list()))
			if strings.Join(got, " ") != strings.Join(want, " ") {
				c.Fail(sub, i, "findhttpaddrs-differs", fmt.Sprintf("got %v want %v", got, want), wit())
			}
		})
		// FilterPublic: never loopback/private/unspecified/localhost; keeps public ones (and other DNS names)
		c.Guard(sub, i, wit, func() {
			got := maStrings(mautil.FilterPublic(list()))
			gotSet := map[string]int{}
			for _, g := range got {
				gotSet[g]++
			}
			wantKeep := map[string]int{}
			for _, l := range labs {
				switch l.class {
				case "public", "dns":
					wantKeep[l.ma.String()]++
				default:
					if gotSet[l.ma.String()] > 0 {
						c.Fail(sub, i, "filterpublic-returns-"+l.class, l.ma.String(), wit())
					}
				}
			}
			for k, v := range wantKeep {
				if gotSet[k] != v {
					c.Fail(sub, i, "filterpublic-drops-public", fmt.Sprintf("%s kept %d times, want %d", k, gotSet[k], v), wit())
				}
			}
			for k := range gotSet {
				if wantKeep[k] == 0 {
					found := false
					for _, l := range labs {
						if l.ma.String() == k {
							found = true
						}
					}
					if !found {
						c.Fail(sub, i, "filterpublic-invents-address", k, wit())
					}
				}
			}
		})
		// nil entries never panic
		c.Guard(sub, i, wit, func() {
			l := list()
			if len(l) > 0 {
				l[r.Intn(len(l))] = nil
			}
			l = append(l, nil)
			_ = mautil.FilterPublic(l)
			_ = mautil.FindHTTPAddrs(l)
		})
		// CleanPeerAddrInfo: drops exactly the nils
		c.Guard(sub, i, wit, func() {
			l := list()
			var withNil []multiaddr.Multiaddr
			for _, m := range l {
				for r.Intn(3) == 0 {
					withNil = append(withNil, nil)
				}
				withNil = append(withNil, m)
			}
			for r.Intn(3) == 0 {
				withNil = append(withNil, nil)
			}
			pid := peer.ID("p")
			out := mautil.CleanPeerAddrInfo(peer.AddrInfo{ID: pid, Addrs: withNil})
			got := sortedCopy(maStrings(out.Addrs))
			want := sortedCopy(src)
			if out.ID != pid || strings.Join(got, " ") != strings.Join(want, " ") {
				c.Fail(sub, i, "cleanpeeraddrinfo-differs", fmt.Sprintf("got %v want %v", got, want), wit())
			}
		})
		// ToURL of every HTTP address in the list: the host of the URL is the host of the address (an IP address, in
		// brackets when it is IPv6, or the DNS name as it stands), whatever the other components are
		for _, l := range labs {
			if !l.http || strings.HasPrefix(l.source, "/ip6zone/") || strings.HasPrefix(l.source, "/dnsaddr/") {
				continue
			}
			parts := strings.Split(l.source, "/")
			if len(parts) < 3 {
				continue
			}
			hostWant := parts[2]
			u, err := maurl.ToURL(l.ma)
			if err != nil {
				continue
			}
			got := u.Hostname()
			if ipw := net.ParseIP(hostWant); ipw != nil {
				if ipg := net.ParseIP(got); ipg == nil || !ipg.Equal(ipw) {
					c.Fail(sub, i, "tourl-host-differs", fmt.Sprintf("%s -> %s", l.source, u.String()), wit())
				}
			} else if got != hostWant || strings.Contains(u.Host, "[") {
				c.Fail(sub, i, "tourl-host-differs", fmt.Sprintf("%s -> %s", l.source, u.String()), wit())
			}
			c.Inc("tourl_hosts_checked")
		}
		// MultiaddrsEqual: order-insensitive, multiplicity-sensitive
		c.Guard(sub, i, wit, func() {
			a := list()
			b := list()
			r.Shuffle(len(b), func(x, y int) { b[x], b[y] = b[y], b[x] })
			if !mautil.MultiaddrsEqual(a, b) {
				c.Fail(sub, i, "multiaddrsequal-permutation", fmt.Sprintf("%v vs %v", maStrings(a), maStrings(b)), wit())
			}
			if len(labs) > 0 {
				// replace one element by a different address: multisets now differ
				a2 := list()
				b2 := list()
				k := r.Intn(len(b2))
				var repl labAddr
				for {
					repl = c20GenLabAddr(r)
					if !repl.ma.Equal(b2[k]) {
						break
					}
				}
				b2[k] = repl.ma
				r.Shuffle(len(b2), func(x, y int) { b2[x], b2[y] = b2[y], b2[x] })
				sa, sb := sortedCopy(maStrings(a2)), sortedCopy(maStrings(b2))
				same := strings.Join(sa, " ") == strings.Join(sb, " ")
				if mautil.MultiaddrsEqual(a2, b2) != same {
					c.Fail(sub, i, "multiaddrsequal-multiset", fmt.Sprintf("%v vs %v: want %v", sa, sb, same), wit())
				}
				// different lengths
				if mautil.MultiaddrsEqual(list(), append(list(), labs[0].ma)) {
					c.Fail(sub, i, "multiaddrsequal-length", "", wit())
				}
			}
			// [x,x,y] vs [x,y,y]
			if len(labs) >= 2 && !labs[0].ma.Equal(labs[1].ma) {
				x, y := labs[0].ma, labs[1].ma
				if mautil.MultiaddrsEqual([]multiaddr.Multiaddr{x, x, y}, []multiaddr.Multiaddr{y, x, y}) {
					c.Fail(sub, i, "multiaddrsequal-multiplicity", "", wit())
				}
				c.Inc("multiplicity_checked")
			}
			// lists with repeated addresses over a small set: equal exactly when they are equal as multisets
			if len(labs) >= 2 {
				pool := []multiaddr.Multiaddr{labs[0].ma, labs[1].ma, labs[len(labs)-1].ma}
				for t := 0; t < 4; t++ {
					n := 2 + r.Intn(4)
					var la, lb []multiaddr.Multiaddr
					for k := 0; k < n; k++ {
						la = append(la, pool[r.Intn(len(pool))])
					}
					if t%2 == 0 {
						// every address of la twice over against every address of another choice twice over
						la = append(la, la...)
						for k := 0; k < n; k++ {
							x := pool[r.Intn(len(pool))]
							lb = append(lb, x, x)
						}
					} else {
						for k := 0; k < n; k++ {
							lb = append(lb, pool[r.Intn(len(pool))])
						}
					}
					sa, sb := sortedCopy(maStrings(la)), sortedCopy(maStrings(lb))
					same := strings.Join(sa, " ") == strings.Join(sb, " ")
					if mautil.MultiaddrsEqual(append([]multiaddr.Multiaddr(nil), la...), append([]multiaddr.Multiaddr(nil), lb...)) != same {
						c.Fail(sub, i, "multiaddrsequal-multiset:repeated-addresses", fmt.Sprintf("%v vs %v: want %v", sa, sb, same), wit())
					}
				}
				c.Inc("repeated_address_lists_compared")
			}
		})
		c.Eval(5)
		var classes []string
		for _, l := range labs {
			classes = append(classes, l.class+fmt.Sprint(l.http))
			c.Inc("class_" + l.class)
		}
		sort.Strings(classes)
		if ln >= 2 {
			c.Distinct(sub, strings.Join(classes, ","))
		}
		if c.WantSample(sub) && ln >= 3 {
			c.Sample(sub, wit())
		}
	}
}
