package props

import (
	"github.com/multiformats/go-varint"
	"bytes"
	"encoding/binary"
	"encoding/hex"
	"fmt"
	"math/rand"
	"sort"
	"strings"

	"github.com/ipfs/go-cid"
	"github.com/ipni/go-libipni/metadata"
	"github.com/multiformats/go-multicodec"
	"github.com/multiformats/go-multihash"

	"verif/harness/vf"
)

func init() { Registry["C11"] = runC11 }

// ---- reference model of the canonical metadata encoding --------------------------------

const (
	idBitswap   = uint64(multicodec.TransportBitswap)
	idGraphsync = uint64(multicodec.TransportGraphsyncFilecoinv1)
	idGateway   = uint64(multicodec.TransportIpfsGatewayHttp)
)

type refSeg struct {
	id  uint64
	raw []byte
}

// cborItemLen returns the length of the CBOR data item at the start of b, or -1.
func cborItemLen(b []byte, depth int) int {
	if len(b) == 0 || depth > 64 {
		return -1
	}
	maj, ai := b[0]>>5, b[0]&31
	var n uint64
	hl := 1
	switch {
	case ai < 24:
		n = uint64(ai)
	case ai == 24:
		hl = 2
	case ai == 25:
		hl = 3
	case ai == 26:
		hl = 5
	case ai == 27:
		hl = 9
	default:
		return -1 // indefinite / reserved: not DAG-CBOR
	}
	if len(b) < hl {
		return -1
	}
	switch hl {
	case 2:
		n = uint64(b[1])
	case 3:
		n = uint64(binary.BigEndian.Uint16(b[1:]))
	case 5:
		n = uint64(binary.BigEndian.Uint32(b[1:]))
	case 9:
		n = binary.BigEndian.Uint64(b[1:])
	}
	switch maj {
	case 0, 1, 7:
		return hl
	case 2, 3:
		if n > uint64(len(b)-hl) {
			return -1
		}
		return hl + int(n)
	case 4, 5:
		cnt := n
		if maj == 5 {
			if n > uint64(len(b)) {
				return -1
			}
			cnt = 2 * n
		}
		if cnt > uint64(len(b)) {
			return -1
		}
		off := hl
		for i := uint64(0); i < cnt; i++ {
			l := cborItemLen(b[off:], depth+1)
			if l < 0 {
				return -1
			}
			off += l
		}
		return off
	case 6:
		l := cborItemLen(b[hl:], depth+1)
		if l < 0 {
			return -1
		}
		return hl + l
	}
	return -1
}

// refSegment splits data into protocol segments the way the format is defined;
// ok=false if data is not a well-formed sequence.
func refSegment(data []byte) (segs []refSeg, ok bool) {
	for len(data) > 0 {
		id, n := binary.Uvarint(data)
		if n <= 0 {
			return nil, false
		}
		// multiformats varints must be minimally encoded and at most 9 bytes
		if n > 9 || (n > 1 && data[n-1] == 0) {
			return nil, false
		}
		var l int
		switch id {
		case idBitswap:
			l = n
		case idGateway:
			if len(data) < n+1 || data[n] != 0 {
				return nil, false
			}
			l = n + 1
		case idGraphsync:
			cl := cborItemLen(data[n:], 0)
			if cl < 0 {
				return nil, false
			}
			l = n + cl
		default:
			sz, m := binary.Uvarint(data[n:])
			if m <= 0 || m > 9 || (m > 1 && data[n+m-1] == 0) {
				return nil, false
			}
			if sz > uint64(len(data)-n-m) {
				return nil, false
			}
			l = n + m + int(sz)
		}
		segs = append(segs, refSeg{id: id, raw: data[:l]})
		data = data[l:]
	}
	return segs, true
}

// ---- generators ---------------------------------------------------------------------

var c11UnknownCodes = []uint64{0x3f, 0x0930, 0x0900 - 1, 0x0911, 0x01e0, 0x400000, 0x12345678, 1, 1 << 56, 1<<63 - 1}

func c11Unknown(r *rand.Rand, code uint64, plen int) *metadata.Unknown {
	p := make([]byte, plen)
	r.Read(p)
	b := binary.AppendUvarint(nil, code)
	b = binary.AppendUvarint(b, uint64(plen))
	b = append(b, p...)
	return &metadata.Unknown{Code: multicodec.Code(code), Payload: b}
}

func c11Graphsync(r *rand.Rand) *metadata.GraphsyncFilecoinV1 {
	d := make([]byte, 1+r.Intn(40))
	r.Read(d)
	var mh multihash.Multihash
	switch r.Intn(3) {
	case 0:
		mh, _ = multihash.Sum(d, multihash.SHA2_256, -1)
	case 1:
		// (inline content of any size: the CID, and with it the CBOR byte string holding it, crosses the sizes at
		// which CBOR length prefixes grow)
		if r.Intn(3) == 0 {
			d = make([]byte, []int{14, 240, 500}[r.Intn(3)]+r.Intn(24))
			r.Read(d)
		}
		mh, _ = multihash.Sum(d, multihash.IDENTITY, -1)
	default:
		mh, _ = multihash.Sum(d, multihash.SHA2_512, -1)
	}
	var c cid.Cid
	if r.Intn(4) == 0 && mh[0] == 0x12 && mh[1] == 0x20 {
		c = cid.NewCidV0(mh)
	} else {
		c = cid.NewCidV1([]uint64{cid.Raw, cid.DagCBOR, 0xf101, cid.DagJSON}[r.Intn(4)], mh)
	}
	return &metadata.GraphsyncFilecoinV1{PieceCID: c, VerifiedDeal: r.Intn(2) == 0, FastRetrieval: r.Intn(2) == 0}
}

// c11Proto makes protocol number k of a pool (deterministic per rng).
func c11Proto(r *rand.Rand, kind int) metadata.Protocol {
	switch kind {
	case 0:
		return &metadata.Bitswap{}
	case 1:
		return &metadata.IpfsGatewayHttp{}
	case 2:
		return c11Graphsync(r)
	case 4:
		return metadata.HTTPV1() // the library's own constructor for the plain HTTP protocol
	default:
		plen := []int{0, 1, 2, 127, 128, 300, 1000, 1013, 1014, 1021, 1022, 1023, 1024}[r.Intn(13)]
		if r.Intn(3) == 0 {
			plen = r.Intn(1025)
		}
		return c11Unknown(r, c11UnknownCodes[r.Intn(len(c11UnknownCodes))], plen)
	}
}

func protoEnc(p metadata.Protocol) []byte {
	b, err := p.MarshalBinary()
	if err != nil {
		panic(err)
	}
	return b
}

// matchCanonical checks that enc is the concatenation of the members'
// encodings in ascending ID order (ties in any order).
func matchCanonical(enc []byte, members []metadata.Protocol) string {
	type it struct {
		id  uint64
		enc []byte
	}
	rest := make([]it, len(members))
	for i, m := range members {
		rest[i] = it{uint64(m.ID()), protoEnc(m)}
	}
	sort.SliceStable(rest, func(i, j int) bool { return rest[i].id < rest[j].id })
	off := 0
	for len(rest) > 0 {
		minID := rest[0].id
		found := -1
		for k := 0; k < len(rest) && rest[k].id == minID; k++ {
			if bytes.HasPrefix(enc[off:], rest[k].enc) {
				found = k
				break
			}
		}
		if found < 0 {
			return fmt.Sprintf("at offset %d no remaining member with lowest id %#x is a prefix", off, minID)
		}
		off += len(rest[found].enc)
		rest = append(rest[:found], rest[found+1:]...)
	}
	if off != len(enc) {
		return fmt.Sprintf("%d trailing bytes", len(enc)-off)
	}
	return ""
}

func permutations(n int, f func([]int)) {
	p := make([]int, n)
	for i := range p {
		p[i] = i
	}
	var rec func(k int)
	rec = func(k int) {
		if k == n {
			f(p)
			return
		}
		for i := k; i < n; i++ {
			p[k], p[i] = p[i], p[k]
			rec(k + 1)
			p[k], p[i] = p[i], p[k]
		}
	}
	rec(0)
}

func idsOf(ps []metadata.Protocol) string {
	var sb strings.Builder
	for _, p := range ps {
		fmt.Fprintf(&sb, "%x,", uint64(p.ID()))
	}
	return sb.String()
}

func c11CheckRoundTrip(c *vf.Ctx, sub string, i int, members []metadata.Protocol, wit func() any) {
	md := metadata.Default.New(members...)
	enc, err := md.MarshalBinary()
	if err != nil {
		c.Fail(sub, i, "marshal-error", err.Error(), wit())
		return
	}
	if why := matchCanonical(enc, members); why != "" {
		c.Fail(sub, i, "encoding-not-canonical", why, wit())
		return
	}
	dec := metadata.Default.New()
	if err := dec.UnmarshalBinary(enc); err != nil {
		c.Fail(sub, i, "decode-of-valid-encoding-fails", fmt.Sprintf("ids=%s: %v", idsOf(members), err), wit())
		return
	}
	if !dec.Equal(md) {
		c.Fail(sub, i, "decode-not-equal", fmt.Sprintf("ids=%s decoded=%v", idsOf(members), dec.Protocols()), wit())
		return
	}
	for _, m := range members {
		g := dec.Get(m.ID())
		if g == nil || g.ID() != m.ID() {
			c.Fail(sub, i, "get-by-id-missing", fmt.Sprintf("id %#x not retrievable after round trip", uint64(m.ID())), wit())
			return
		}
	}
	re, err := dec.MarshalBinary()
	if err != nil || !bytes.Equal(re, enc) {
		c.Fail(sub, i, "reencode-differs-valid", fmt.Sprintf("err=%v", err), wit())
	}
	// the bytes an encoding returns are the caller's: overwritten (a reused buffer, a corrupted copy made in place),
	// they change neither the metadata nor what the library encodes and decodes afterwards
	if mine, err := md.MarshalBinary(); err == nil {
		keep := append([]byte(nil), mine...)
		for x := range mine {
			mine[x] ^= 0xff
		}
		again, err := md.MarshalBinary()
		if err != nil || !bytes.Equal(again, keep) {
			c.Fail(sub, i, "encoding-changes-after-caller-overwrote-earlier-result", fmt.Sprintf("ids=%s err=%v", idsOf(members), err), wit())
			copy(mine, keep) // (leave the library's memory as it was, for the cases that follow)
			return
		}
		chk := metadata.Default.New()
		if err := chk.UnmarshalBinary(keep); err != nil || !chk.Equal(md) {
			c.Fail(sub, i, "decode-fails-after-caller-overwrote-an-encoding", fmt.Sprintf("ids=%s err=%v", idsOf(members), err), wit())
			copy(mine, keep)
			return
		}
	}
	// every member on its own: its encoding is not empty, names its ID, and a metadata of just that protocol round-trips
	for _, m := range members {
		b, err := m.MarshalBinary()
		if err != nil || len(b) == 0 {
			c.Fail(sub, i, "protocol-encodes-to-nothing", fmt.Sprintf("id %#x: %d bytes, err=%v", uint64(m.ID()), len(b), err), wit())
			return
		}
		if code, _, err := varint.FromUvarint(b); err != nil || code != uint64(m.ID()) {
			c.Fail(sub, i, "protocol-encoding-does-not-start-with-its-id", fmt.Sprintf("id %#x: % x", uint64(m.ID()), b[:min(len(b), 8)]), wit())
			return
		}
		one := metadata.Default.New()
		if err := one.UnmarshalBinary(b); err != nil || one.Get(m.ID()) == nil || !one.Equal(metadata.Default.New(m)) {
			c.Fail(sub, i, "single-protocol-roundtrip-fails", fmt.Sprintf("id %#x: err=%v", uint64(m.ID()), err), wit())
			return
		}
	}
}

// ---- the monitor ----------------------------------------------------------------------

func runC11(c *vf.Ctx) {
	c11Exhaustive(c)
	c11Sampled(c)
	c11Hostile(c)
}

// all multisets of size 1..4 over a 6-element pool, every construction order
func c11Exhaustive(c *vf.Ctx) {
	const sub = "roundtrip-exhaustive"
	if !c.Active(sub) {
		return
	}
	maxSize := c.N(3, 4)
	idx := 0
	var ms []int
	var gen func(start, size int)
	gen = func(start, size int) {
		if len(ms) == size {
			i := idx
			idx++
			if !c.Mine(sub, i) {
				return
			}
			msc := append([]int(nil), ms...)
			c.Cur(sub, i, fmt.Sprint(msc))
			r := c.Rand(sub, i)
			// pool: 0 bitswap, 1 gateway, 2 graphsync A, 3 graphsync B, 4 unknown X, 5 unknown Y
			pool := []metadata.Protocol{
				&metadata.Bitswap{}, &metadata.IpfsGatewayHttp{}, c11Graphsync(r), c11Graphsync(r),
				c11Unknown(r, c11UnknownCodes[r.Intn(len(c11UnknownCodes))], r.Intn(40)),
				c11Unknown(r, c11UnknownCodes[r.Intn(len(c11UnknownCodes))], []int{0, 200, 1000}[r.Intn(3)]),
			}
			seen := map[string]bool{}
			permutations(len(msc), func(p []int) {
				order := make([]int, len(p))
				for k, pi := range p {
					order[k] = msc[pi]
				}
				key := fmt.Sprint(order)
				if seen[key] {
					return
				}
				seen[key] = true
				members := make([]metadata.Protocol, len(order))
				for k, o := range order {
					members[k] = pool[o]
				}
				wit := func() any { return map[string]any{"multiset": msc, "order": order} }
				c.Guard(sub, i, wit, func() { c11CheckRoundTrip(c, sub, i, members, wit) })
				c.Eval(1)
				if len(order) >= 2 {
					c.Distinct(sub, key)
				}
			})
			if c.WantSample(sub) && len(msc) >= 3 {
				c.Sample(sub, map[string]any{"multiset_over_pool": msc, "orders_tried": len(seen)})
			}
			return
		}
		for k := start; k < 6; k++ {
			ms = append(ms, k)
			gen(k, size)
			ms = ms[:len(ms)-1]
		}
	}
	for size := 1; size <= maxSize; size++ {
		gen(0, size)
	}
	c.Add("exhaustive_multisets", int64(idx)/int64(c.NShards))
}

// sampled multisets of size 1..6 over freshly generated protocols
func c11Sampled(c *vf.Ctx) {
	const sub = "roundtrip-sampled"
	if !c.Active(sub) {
		return
	}
	n := c.N(30000, 400000)
	var prevEnc, prevCopy []byte
	for i := 0; i < n; i++ {
		if !c.Mine(sub, i) {
			continue
		}
		r := c.Rand(sub, i)
		size := 1 + r.Intn(6)
		members := make([]metadata.Protocol, size)
		kinds := make([]int, size)
		for k := range members {
			kinds[k] = r.Intn(5)
			members[k] = c11Proto(r, kinds[k])
		}
		c.Cur(sub, i, fmt.Sprint(kinds))
		wit := func() any {
			var encs []string
			for _, m := range members {
				encs = append(encs, hex.EncodeToString(protoEnc(m)))
			}
			return map[string]any{"members_hex_in_construction_order": encs}
		}
		c.Guard(sub, i, wit, func() { c11CheckRoundTrip(c, sub, i, members, wit) })
		// an encoding handed out earlier stays what it was while other metadata is encoded
		if prevEnc != nil && !bytes.Equal(prevEnc, prevCopy) {
			c.Fail(sub, i, "earlier-encoding-changed-by-a-later-encode", fmt.Sprintf("the bytes returned for the previous metadata now read %x", prevEnc[:min(len(prevEnc), 24)]), wit())
		}
		mdp := metadata.Default.New(members...)
		if enc, err := mdp.MarshalBinary(); err == nil {
			prevEnc, prevCopy = enc, append([]byte(nil), enc...)
		}
		c.Eval(1)
		if size >= 3 {
			c.Distinct(sub, idsOf(members))
			c.Inc("sampled_size_ge3")
		}
		if c.WantSample(sub) && size >= 3 {
			c.Sample(sub, wit())
		}
	}
}

// c11ValidEncoding builds a valid encoding from the case PRNG.
func c11ValidEncoding(r *rand.Rand) []byte {
	size := 1 + r.Intn(5)
	members := make([]metadata.Protocol, size)
	for k := range members {
		members[k] = c11Proto(r, r.Intn(4))
		if u, ok := members[k].(*metadata.Unknown); ok && len(u.Payload) > 300 && r.Intn(2) == 0 {
			members[k] = c11Unknown(r, uint64(u.Code), r.Intn(30))
		}
	}
	md := metadata.Default.New(members...)
	b, err := md.MarshalBinary()
	if err != nil {
		panic(err)
	}
	return b
}

func c11AllocBound(n int) uint64 { return 64<<10 + 1024*uint64(n) }

// c11GraphsyncAlloc walks the input the way the format is defined and measures
// the allocation of GraphsyncFilecoinV1.ReadFrom alone at every graphsync
// segment start (total and largest single call).
func c11GraphsyncAlloc(in []byte) (total, largest uint64) {
	data := in
	for len(data) > 0 {
		id, n := binary.Uvarint(data)
		if n <= 0 {
			return
		}
		if id == idGraphsync {
			var consumed int64
			var err error
			a := vf.AllocDelta(func() {
				defer func() { _ = recover() }()
				consumed, err = (&metadata.GraphsyncFilecoinV1{}).ReadFrom(bytes.NewReader(data))
			})
			total += a
			if a > largest {
				largest = a
			}
			if err != nil || consumed <= 0 || consumed > int64(len(data)) {
				return
			}
			data = data[consumed:]
			continue
		}
		segs, _ := refSegmentOne(data)
		if segs <= 0 {
			return
		}
		data = data[segs:]
	}
	return
}

// refSegmentOne returns the length of the first (non-graphsync) segment, or -1.
func refSegmentOne(data []byte) (int, bool) {
	id, n := binary.Uvarint(data)
	if n <= 0 {
		return -1, false
	}
	switch id {
	case idBitswap:
		return n, true
	case idGateway:
		if len(data) < n+1 {
			return -1, false
		}
		return n + 1, true
	default:
		sz, m := binary.Uvarint(data[n:])
		if m <= 0 || sz > uint64(len(data)-n-m) {
			return -1, false
		}
		return n + m + int(sz), true
	}
}

func c11Hostile(c *vf.Ctx) {
	const sub = "hostile"
	if !c.Active(sub) {
		return
	}
	n := c.N(200000, 8000000)
	for i := 0; i < n; i++ {
		if !c.Mine(sub, i) {
			continue
		}
		r := c.Rand(sub, i)
		a := c11ValidEncoding(r)
		b := c11ValidEncoding(r)
		in, kind := vf.Mutate(r, a, b)
		if r.Intn(10) == 0 {
			// a valid encoding in which one protocol code or length prefix is written as a padded
			// (non-minimal) varint: the same value, another byte sequence
			if segs, ok := refSegment(a); ok && len(segs) > 0 {
				k := r.Intn(len(segs))
				off := 0
				for x := 0; x < k; x++ {
					off += len(segs[x].raw)
				}
				_, n := binary.Uvarint(a[off:])
				pos := off // pad the code ...
				if segs[k].id != idBitswap && segs[k].id != idGateway && segs[k].id != idGraphsync && r.Intn(2) == 0 {
					pos = off + n // ... or the length prefix of an unknown protocol
				}
				_, m := binary.Uvarint(a[pos:])
				if m > 0 {
					padded := append([]byte(nil), a[pos:pos+m]...)
					padded[m-1] |= 0x80
					padded = append(padded, 0x00)
					in = append(append(append([]byte(nil), a[:pos]...), padded...), a[pos+m:]...)
					kind = "padded-varint"
				}
			}
		}
		if r.Intn(6) == 0 { // second-order mutant
			var k2 string
			in, k2 = vf.Mutate(r, in, a)
			kind += "+" + k2
		}
		if len(in) > 1024 {
			in = in[:1024]
		}
		c11HostileOne(c, sub, i, in, kind)
	}
	// fixed corpus: the inputs behind the recorded findings and fixes
	for k, hx := range c11Corpus {
		i := n + k
		if !c.Mine(sub, i) {
			continue
		}
		in, _ := hex.DecodeString(hx)
		c11HostileOne(c, sub, i, in, "corpus")
	}
}

var c11Corpus = []string{
	"9012a3685069656365434944d82a5a01ffffff",                                     // graphsync: bytes header naming 32 MiB
	"9012a3685069656365434944d82a4a000181e20300036220c4c46c56657269666965644465616cf46d4661737452657472696576616cf4", // graphsync: extraneous tag
	"3f8080808010",                                                             // unknown: 2^32 length prefix
	"3fffffffffffffffff7f",                                                     // unknown: 2^63-1 length prefix
	"3fffffffffffffffffff01",                                                   // unknown: 2^64-1 length prefix
	"a01200" + "8012",                                                          // unsorted: gateway then bitswap
	"80128012a01200",                                                           // three protocols
	"",                                                                         // empty
	"80",                                                                       // truncated varint
	"018200050600",                                                             // unknown: length prefix 2 padded to two bytes (82 00)
	"3f8100aa",                                                                 // unknown: length prefix 1 padded (81 00)
	"bf00" + "00",                                                              // code 0x3f padded (bf 00), empty payload
}

func c11HostileOne(c *vf.Ctx, sub string, i int, in []byte, kind string) {
	c.Cur(sub, i, kind+" "+hex.EncodeToString(in))
	wit := func() any { return map[string]any{"input_hex": hex.EncodeToString(in), "mutation": kind} }
	var md metadata.Metadata
	var err error
	var re []byte
	var reErr error
	inCopy := append([]byte(nil), in...)
	alloc := vf.AllocDelta(func() {
		c.Guard(sub, i, wit, func() {
			md = metadata.Default.New()
			err = md.UnmarshalBinary(inCopy)
			if err == nil {
				re, reErr = md.MarshalBinary()
			}
		})
	})
	// the same bytes decoded into a zero-value Metadata (the type is an encoding.BinaryUnmarshaler): same verdict
	if i%4 == 0 {
		c.Guard(sub, i, wit, func() {
			var zero metadata.Metadata
			zerr := zero.UnmarshalBinary(append([]byte(nil), in...))
			if (zerr == nil) != (err == nil) {
				c.Fail(sub, i, "zero-value-metadata-decodes-differently", fmt.Sprintf("Default.New(): %v, zero value: %v", err, zerr), wit())
			}
			c.Inc("decoded_into_a_zero_value_metadata")
		})
	}
	c.Eval(1)
	c.Inc("mut_" + strings.SplitN(kind, "+", 2)[0])
	if alloc > c11AllocBound(len(in)) {
		// Attribute: how much of it is the DAG-CBOR decoder called for graphsync
		// segments (the dependency pre-allocates strings from their length header,
		// capped at 32 MiB per item)?
		g, gmax := c11GraphsyncAlloc(in)
		key := "alloc-unbounded"
		if g > 0 && alloc <= g+c11AllocBound(len(in)) && gmax <= 96<<20 {
			key = "alloc-unbounded:graphsync-dagcbor-decoder"
		}
		c.Fail(sub, i, key, fmt.Sprintf("decoding %d input bytes allocated %d bytes (bound %d; %d of it inside GraphsyncFilecoinV1.ReadFrom)", len(in), alloc, c11AllocBound(len(in)), g), wit())
	}
	c.Max("max_alloc_per_case", int64(alloc))
	segs, wf := refSegment(in)
	if err != nil {
		c.Inc("hostile_rejected")
		// A well-formed, sorted sequence without graphsync segments is the encoding
		// of some metadata and must decode.
		if wf && len(segs) > 0 {
			sorted, gs := true, false
			for k, s := range segs {
				if k > 0 && segs[k-1].id > s.id {
					sorted = false
				}
				if s.id == idGraphsync {
					gs = true
				}
			}
			if sorted && !gs {
				c.Fail(sub, i, "valid-encoding-rejected", fmt.Sprintf("%d well-formed sorted segments, error: %v", len(segs), err), wit())
			}
		}
		return
	}
	c.Inc("hostile_accepted")
	c.Distinct(sub, kind, fmt.Sprint(md.Protocols()))
	if reErr != nil {
		c.Fail(sub, i, "reencode-error", reErr.Error(), wit())
		return
	}
	if bytes.Equal(re, in) {
		if c.WantSample(sub) {
			c.Sample(sub, map[string]any{"accepted_mutant_hex": hex.EncodeToString(in), "mutation": kind, "protocols": fmt.Sprint(md.Protocols())})
		}
		return
	}
	// accepted, but re-encodes differently: classify
	key := "reencode-differs"
	if wf {
		sorted := true
		sameOutside := true
		gsDiff := false
		resegs, rewf := refSegment(re)
		if !rewf || len(resegs) != len(segs) {
			sameOutside = false
		}
		for k, s := range segs {
			if k > 0 && segs[k-1].id > s.id {
				sorted = false
			}
			if sameOutside {
				if s.id == idGraphsync && resegs[k].id == idGraphsync {
					if !bytes.Equal(s.raw, resegs[k].raw) {
						gsDiff = true
					}
				} else if !bytes.Equal(s.raw, resegs[k].raw) {
					sameOutside = false
				}
			}
		}
		if !sorted {
			key = "reencode-differs:unsorted-accepted"
		} else if sameOutside && gsDiff {
			d2 := metadata.Default.New()
			if e2 := d2.UnmarshalBinary(re); e2 == nil && d2.Equal(md) {
				key = "reencode-differs:graphsync-noncanonical-cbor"
			}
		} else {
			key = "reencode-differs:segments-misparsed"
		}
	} else {
		key = "reencode-differs:malformed-accepted"
	}
	c.Fail(sub, i, key, fmt.Sprintf("accepted %d bytes as %v but re-encodes to %d different bytes (%s)", len(in), md.Protocols(), len(re), hex.EncodeToString(re)), wit())
}
