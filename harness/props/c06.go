package props

import (
	"context"
	"encoding/json"
	"fmt"
	"math/rand"
	"net/http"
	"net/http/httptest"
	"path"
	"strings"
	"sync"
	"sync/atomic"
	"time"

	"github.com/ipni/go-libipni/find/model"
	"github.com/ipni/go-libipni/pcache"
	"github.com/libp2p/go-libp2p/core/peer"

	"verif/harness/vf"
)

func init() { Registry["C06"] = runC06 }

var (
	pcPeersOnce sync.Once
	pcPeers     []peer.ID
)

// pcPeerPool: cheap deterministic peer IDs.
func pcPeerPool() []peer.ID {
	pcPeersOnce.Do(func() {
		r := rand.New(rand.NewSource(4242))
		for k := 0; k < 120; k++ {
			pcPeers = append(pcPeers, EdIdent(r).ID)
		}
	})
	return pcPeers
}

type c06Vis struct {
	visible     bool
	lastVersion int       // version shown when last seen visible
	missingFrom time.Time // upper bound of the time the first refresh that missed it took "now" (zero: currently reported)
	missingLo   time.Time // lower bound of the same
	everSeen    bool
}

type c06Neg struct {
	createdLo, createdHi time.Time
	fetchCallsAt         []int // per source, Fetch call count right after the negative entry was created
}

func runC06(c *vf.Ctx) {
	c06HTTPSource(c)
	const sub = "history"
	if !c.Active(sub) {
		return
	}
	n := c.N(3000, 120000)
	var publishes, merges atomic.Int64
	pcache.SetVerifTap(func(point string) {
		switch point {
		case "refresh.publish", "miss.publish":
			publishes.Add(1)
		case "refresh.publish.merged", "miss.publish.merged":
			merges.Add(1)
		}
	})
	defer pcache.SetVerifTap(nil)
	pool := pcPeerPool()
	for i := 0; i < n; i++ {
		if !c.Mine(sub, i) {
			continue
		}
		r := c.Rand(sub, i)
		nsrc := 1 + r.Intn(3)
		ttlMode := []string{"huge", "huge", "tiny", "short"}[r.Intn(4)]
		ttl := time.Hour
		if ttlMode == "tiny" {
			ttl = time.Nanosecond
		}
		if ttlMode == "short" {
			// several refreshes fit into one time-to-live, and the run outlasts several of them
			ttl = time.Duration(4+r.Intn(8)) * time.Millisecond
		}
		npop := []int{2, 5, 12, 30, 45}[r.Intn(5)]
		provs := pool[:npop]
		strangers := pool[100:110]
		srcs := make([]*scriptSource, nsrc)
		var psrcs []pcache.ProviderSource
		for k := range srcs {
			srcs[k] = newScriptSource(fmt.Sprintf("src%d", k))
			psrcs = append(psrcs, srcs[k])
		}
		// initial content
		untimed := 0
		for _, p := range provs {
			for _, s := range srcs {
				if r.Intn(3) != 0 {
					s.set(p, 1+r.Intn(5))
				}
				if r.Intn(10) == 0 {
					s.mu.Lock()
					s.noTime[p] = true // this source never reports an advertisement time for p
					s.mu.Unlock()
					untimed++
				}
			}
		}
		preload := r.Intn(2) == 0
		c.Cur(sub, i, fmt.Sprintf("sources=%d ttl=%s pop=%d preload=%v", nsrc, ttlMode, npop, preload))
		var steps []string
		wit := func() any {
			st := steps
			if len(st) > 60 {
				st = st[len(st)-60:]
			}
			return map[string]any{"sources": nsrc, "ttl": ttlMode, "population": npop, "preload": preload, "steps(last 60)": st}
		}
		bad := false
		fail := func(key, detail string) {
			if !bad {
				c.Fail(sub, i, key, detail, wit())
			}
			bad = true
		}
		c.Guard(sub, i, wit, func() {
			pc, err := pcache.New(pcache.WithSource(psrcs...), pcache.WithTTL(ttl), pcache.WithRefreshInterval(0), pcache.WithPreload(preload))
			if err != nil {
				fail("pcache-new", err.Error())
				return
			}
			vis := map[peer.ID]*c06Vis{}
			neg := map[peer.ID]*c06Neg{}
			for _, p := range append(append([]peer.ID(nil), provs...), strangers...) {
				vis[p] = &c06Vis{}
			}
			cancelledSinceOK := false
			// offered returns the highest version any responding source reports for p now
			// (records without an advertisement time count as oldest: when a responding source offers a
			// timed record, the freshest TIMED one is what must be shown; untimedOnly tells that none is timed)
			untimedOnly := map[peer.ID]bool{}
			offered := func(p peer.ID) (int, bool) {
				best, ok, timed := 0, false, false
				for _, s := range srcs {
					s.mu.Lock()
					f := s.failing
					v, has := s.recs[p]
					nt := s.noTime[p]
					s.mu.Unlock()
					if !f && has {
						ok = true
						if !nt {
							if !timed || v > best {
								best = v
							}
							timed = true
						}
					}
				}
				untimedOnly[p] = ok && !timed
				if !timed {
					best = 0
				}
				return best, ok
			}
			list := func() map[peer.ID]*model.ProviderInfo {
				m := map[peer.ID]*model.ProviderInfo{}
				for _, pi := range pc.List() {
					if pi == nil {
						fail("list-contains-nil", "")
						continue
					}
					if _, dup := m[pi.AddrInfo.ID]; dup {
						fail("list-contains-duplicate", pi.AddrInfo.ID.String())
					}
					m[pi.AddrInfo.ID] = pi
				}
				return m
			}
			checkRecord := func(p peer.ID, pi *model.ProviderInfo, where string) {
				if pi.AddrInfo.ID != p {
					fail("record-for-other-provider", where)
				}
				okTag := false
				for _, s := range srcs {
					if s.wasDelivered(pi.LastError) {
						okTag = true
					}
				}
				if !okTag {
					fail("record-never-delivered-by-a-source", fmt.Sprintf("%s: %+v", where, pi))
				}
			}
			// afterRefresh applies the property's clauses after a refresh that returned nil.
			missOverlap := false // set while checking a refresh that overlapped a lookup miss
			twoRefreshes := false // set when an "overlapping" step really ran two refreshes one after the other
			missDuringRefresh := false
			overlapCancelled := false // set while checking a refresh that was requested while a later-cancelled one ran
			afterRefresh := func(lo, hi time.Time, label string) {
				l := list()
				for _, p := range append(append([]peer.ID(nil), provs...), strangers...) {
					v := vis[p]
					inList := l[p]
					// (Get of an unknown provider would create a negative entry via the sources: absence is
					// judged from List only, Get is called for providers that must be present)
					want, reported := offered(p)
					if reported {
						if inList == nil {
							key := "reported-provider-not-listed-after-refresh"
							if missDuringRefresh {
								key = "reported-provider-not-listed-after-refresh:lookup-missed-during-the-refresh"
							} else if overlapCancelled {
								key = "reported-provider-not-listed-after-refresh:requested-during-a-refresh-that-was-then-cancelled"
							} else if missOverlap {
								key = "reported-provider-not-listed-after-refresh:refresh-overlapping-lookup-miss"
							} else if cancelledSinceOK {
								key = "reported-provider-not-listed-after-refresh:cancelled-refresh-then-success"
							}
							fail(key, fmt.Sprintf("%s: provider %s offered v%d", label, p, want))
							continue
						}
						got, _ := pc.Get(context.Background(), p)
						if got == nil {
							fail("reported-provider-not-returned-by-get", fmt.Sprintf("%s: provider %s", label, p))
							continue
						}
						checkRecord(p, inList, label)
						for _, pi := range []*model.ProviderInfo{inList, got} {
							if !untimedOnly[p] && pi.LastAdvertisementTime == "" {
								fail("untimed-record-shown-although-a-timed-one-is-offered", fmt.Sprintf("%s: provider %s", label, p))
							}
							if !untimedOnly[p] && versionOf(pi) < want {
								key := "stale-record-after-refresh"
								if missDuringRefresh {
									key = "stale-record-after-refresh:lookup-missed-during-the-refresh"
								} else if overlapCancelled {
									key = "stale-record-after-refresh:requested-during-a-refresh-that-was-then-cancelled"
								} else if missOverlap {
									key = "stale-record-after-refresh:refresh-overlapping-lookup-miss"
								} else if cancelledSinceOK {
									key = "stale-record-after-refresh:cancelled-refresh-then-success"
								}
								fail(key, fmt.Sprintf("%s: provider %s shown v%d, a responding source offers v%d", label, p, versionOf(pi), want))
							}
						}
						if v.visible && inList.LastAdvertisementTime != "" && versionOf(inList) < v.lastVersion {
							fail("record-went-back-in-time", fmt.Sprintf("%s: provider %s v%d after v%d", label, p, versionOf(inList), v.lastVersion))
						}
						if !v.visible {
							v.lastVersion = 0 // a new cache entry: nothing to be monotone against
						}
						v.visible, v.everSeen = true, true
						if inList.LastAdvertisementTime != "" {
							v.lastVersion = versionOf(inList)
						}
						v.missingFrom, v.missingLo = time.Time{}, time.Time{}
						delete(neg, p)
						continue
					}
					// not reported by any responding source
					if !v.visible {
						if inList != nil {
							fail("unreported-provider-appeared", fmt.Sprintf("%s: provider %s", label, p))
						}
						continue
					}
					if v.missingFrom.IsZero() {
						// this refresh is the first to miss it: the removal timer starts now
						v.missingLo, v.missingFrom = lo, hi
						if inList == nil && twoRefreshes && ttlMode == "tiny" {
							// the first of the two refreshes started the timer, the second one was past it
							v.visible = false
							v.missingFrom, v.missingLo = time.Time{}, time.Time{}
							continue
						}
						if inList == nil {
							fail("provider-removed-before-ttl", fmt.Sprintf("%s: provider %s vanished at the first refresh that did not report it", label, p))
							v.visible = false
						}
						continue
					}
					certainlyExpired := lo.After(v.missingFrom.Add(ttl))
					certainlyNot := hi.Before(v.missingLo.Add(ttl))
					switch {
					case certainlyExpired && inList != nil:
						fail("provider-still-visible-after-ttl", fmt.Sprintf("%s: provider %s", label, p))
					case certainlyNot && inList == nil:
						fail("provider-removed-before-ttl", fmt.Sprintf("%s: provider %s", label, p))
					}
					if inList == nil {
						v.visible = false
						v.missingFrom, v.missingLo = time.Time{}, time.Time{}
						c.Inc("expiries_observed")
					} else if versionOf(inList) < v.lastVersion {
						fail("record-went-back-in-time", fmt.Sprintf("%s: provider %s", label, p))
					}
				}
				cancelledSinceOK = false
			}
			if preload {
				now := time.Now()
				afterRefresh(now.Add(-time.Second), now, "preload")
				steps = append(steps, "preload refresh")
			}
			nsteps := 10 + r.Intn(30)
			prevKind := "start"
			for st := 0; st < nsteps && !bad; st++ {
				kind := []string{"change", "change", "refresh", "refresh", "refresh-cancelled", "refresh-overlap", "refresh-while-miss", "get-miss", "get-negative", "fail-source", "heal-source", "wait", "refresh-overlap-cancelled", "refresh-cancelled-late", "miss-while-refresh"}[r.Intn(15)]
				c.DistinctIn("step_bigrams", prevKind, kind)
				prevKind = kind
				switch kind {
				case "change":
					for k := 1 + r.Intn(4); k > 0; k-- {
						p := provs[r.Intn(len(provs))]
						s := srcs[r.Intn(nsrc)]
						cur, has := s.get(p)
						switch r.Intn(5) {
						case 0:
							s.del(p)
							steps = append(steps, fmt.Sprintf("%s: %s disappears", s.name, short(p)))
						case 1:
							if has && cur > 1 {
								s.set(p, cur-1)
								steps = append(steps, fmt.Sprintf("%s: %s regresses to v%d", s.name, short(p), cur-1))
							}
						default:
							nv := cur + 1 + r.Intn(3)
							if !has {
								nv = 1 + r.Intn(6)
							}
							// advancing beyond what any source ever offered keeps versions meaningful
							s.set(p, nv)
							steps = append(steps, fmt.Sprintf("%s: %s -> v%d", s.name, short(p), nv))
						}
					}
				case "refresh":
					if ttlMode == "tiny" {
						time.Sleep(2 * time.Millisecond)
					}
					lo := time.Now()
					err := pc.Refresh(context.Background())
					hi := time.Now()
					steps = append(steps, fmt.Sprintf("Refresh -> %v", err))
					if err != nil {
						fail("refresh-error", err.Error())
						break
					}
					c.Inc("refreshes_ok")
					if cancelledSinceOK {
						c.Inc("cancelled_then_successful_refresh")
					}
					afterRefresh(lo, hi, fmt.Sprintf("step %d refresh", st))
				case "refresh-cancelled":
					at := r.Intn(nsrc)
					ctx, cancel := context.WithCancel(context.Background())
					srcs[at].mu.Lock()
					srcs[at].onFetchAll = func(cx context.Context) error {
						cancel()
						return cx.Err()
					}
					srcs[at].mu.Unlock()
					err := pc.Refresh(ctx)
					srcs[at].mu.Lock()
					srcs[at].onFetchAll = nil
					srcs[at].mu.Unlock()
					cancel()
					steps = append(steps, fmt.Sprintf("Refresh cancelled when %s is reached -> %v", srcs[at].name, err))
					if err == nil {
						fail("cancelled-refresh-returned-nil", "")
					}
					cancelledSinceOK = true
					c.Inc("refreshes_cancelled")
				case "refresh-cancelled-late":
					// the caller's context ends while the LAST source is answering; that source still delivers its
					// list. Whether this refresh then reports success or the cancellation, it must not leave behind
					// anything that keeps a later refresh from showing what the sources report.
					if ttlMode == "tiny" {
						time.Sleep(2 * time.Millisecond)
					}
					at := nsrc - 1
					ctx, cancel := context.WithCancel(context.Background())
					srcs[at].mu.Lock()
					srcs[at].onFetchAll = func(cx context.Context) error {
						cancel()
						return nil
					}
					srcs[at].mu.Unlock()
					lo := time.Now()
					err := pc.Refresh(ctx)
					hi := time.Now()
					srcs[at].mu.Lock()
					srcs[at].onFetchAll = nil
					srcs[at].mu.Unlock()
					cancel()
					steps = append(steps, fmt.Sprintf("Refresh whose context ends while the last source (%s) answers (it still delivers) -> %v", srcs[at].name, err))
					c.Inc("refreshes_cancelled_after_the_last_source_answered")
					if err != nil {
						cancelledSinceOK = true
						break
					}
					afterRefresh(lo, hi, fmt.Sprintf("step %d refresh cancelled late", st))
				case "refresh-overlap":
					if ttlMode == "tiny" {
						time.Sleep(2 * time.Millisecond)
					}
					gate := make(chan struct{})
					entered := make(chan struct{}, 1)
					srcs[0].mu.Lock()
					srcs[0].onFetchAll = func(cx context.Context) error {
						select {
						case entered <- struct{}{}:
						default:
						}
						<-gate
						return nil
					}
					srcs[0].mu.Unlock()
					lo := time.Now()
					callsBefore, _ := srcs[0].calls()
					errs := make(chan error, 2)
					go func() { errs <- pc.Refresh(context.Background()) }()
					<-entered
					go func() { errs <- pc.Refresh(context.Background()) }()
					time.Sleep(time.Millisecond)
					srcs[0].mu.Lock()
					srcs[0].onFetchAll = nil
					srcs[0].mu.Unlock()
					close(gate)
					e1, e2 := <-errs, <-errs
					hi := time.Now()
					steps = append(steps, fmt.Sprintf("two overlapping Refresh calls -> %v, %v", e1, e2))
					if e1 != nil || e2 != nil {
						fail("overlapping-refresh-error", fmt.Sprint(e1, e2))
						break
					}
					c.Inc("refreshes_overlapping")
					callsAfter, _ := srcs[0].calls()
					twoRefreshes = callsAfter-callsBefore >= 2
					afterRefresh(lo, hi, fmt.Sprintf("step %d overlapping refresh", st))
					twoRefreshes = false
				case "refresh-overlap-cancelled":
					// a refresh is inside a source when a second one is requested; the first is then cancelled.
					// The second returns without error: everything the property says about a refresh that
					// completes without error applies to it.
					if ttlMode == "tiny" {
						time.Sleep(2 * time.Millisecond)
					}
					at := r.Intn(nsrc)
					gate := make(chan struct{})
					entered := make(chan struct{}, 1)
					ctxA, cancelA := context.WithCancel(context.Background())
					srcs[at].mu.Lock()
					srcs[at].onFetchAll = func(cx context.Context) error {
						select {
						case entered <- struct{}{}:
							<-gate
							return cx.Err()
						default:
							return nil // (only the first call is held)
						}
					}
					srcs[at].mu.Unlock()
					lo := time.Now()
					errA := make(chan error, 1)
					errB := make(chan error, 1)
					go func() { errA <- pc.Refresh(ctxA) }()
					<-entered
					go func() { errB <- pc.Refresh(context.Background()) }()
					time.Sleep(time.Millisecond)
					cancelA()
					close(gate)
					eA := <-errA
					eB := <-errB
					srcs[at].mu.Lock()
					srcs[at].onFetchAll = nil
					srcs[at].mu.Unlock()
					hi := time.Now()
					steps = append(steps, fmt.Sprintf("Refresh A held inside %s, Refresh B requested, A cancelled -> A: %v, B: %v", srcs[at].name, eA, eB))
					if eA == nil {
						fail("cancelled-refresh-returned-nil", "")
						break
					}
					if eB != nil {
						fail("refresh-error", eB.Error())
						break
					}
					cancelledSinceOK = false
					c.Inc("refreshes_overlapping_a_cancelled_one")
					overlapCancelled = true
					afterRefresh(lo, hi, fmt.Sprintf("step %d refresh requested while another, later cancelled, refresh was running", st))
					overlapCancelled = false
				case "miss-while-refresh":
					// a refresh is inside a source when a lookup misses: the lookup has looked at the cache as it was
					// before the refresh and must wait for it; what it publishes afterwards must not undo the refresh
					if ttlMode != "huge" {
						break // (the step takes a few milliseconds; keep expiry out of it)
					}
					{
						missP := pool[90+(st+i)%10] // never reported
						gate := make(chan struct{})
						entered := make(chan struct{}, 1)
						srcs[0].mu.Lock()
						srcs[0].onFetchAll = func(cx context.Context) error {
							select {
							case entered <- struct{}{}:
								<-gate
							default:
							}
							return nil
						}
						srcs[0].mu.Unlock()
						lo := time.Now()
						rerr := make(chan error, 1)
						go func() { rerr <- pc.Refresh(context.Background()) }()
						<-entered
						missDone := make(chan struct{})
						go func() { defer close(missDone); _, _ = pc.Get(context.Background(), missP) }()
						time.Sleep(time.Millisecond) // the lookup reads the snapshot and queues up behind the refresh
						close(gate)
						err := <-rerr
						<-missDone
						srcs[0].mu.Lock()
						srcs[0].onFetchAll = nil
						srcs[0].mu.Unlock()
						hi := time.Now()
						steps = append(steps, fmt.Sprintf("a lookup of an unknown provider missed while Refresh was inside %s -> %v", srcs[0].name, err))
						if err != nil {
							fail("refresh-error", err.Error())
							break
						}
						c.Inc("lookup_misses_during_a_refresh")
						missDuringRefresh = true
						afterRefresh(lo, hi, fmt.Sprintf("step %d refresh during which a lookup missed", st))
						missDuringRefresh = false
					}
				case "refresh-while-miss":
					// a lookup miss is inside a source when Refresh is called
					if ttlMode == "tiny" {
						time.Sleep(2 * time.Millisecond)
					}
					missP := pool[110+(st+i)%10] // never reported, never looked up twice in a row
					gate := make(chan struct{})
					entered := make(chan struct{}, 1)
					srcs[0].mu.Lock()
					srcs[0].onFetch = func(cx context.Context, _ peer.ID) error {
						select {
						case entered <- struct{}{}:
						default:
						}
						<-gate
						return nil
					}
					srcs[0].mu.Unlock()
					missDone := make(chan struct{})
					go func() { defer close(missDone); _, _ = pc.Get(context.Background(), missP) }()
					select {
					case <-entered:
					case <-missDone: // already negative-cached: no source call, nothing to overlap with
					}
					lo := time.Now()
					rerr := make(chan error, 1)
					go func() { rerr <- pc.Refresh(context.Background()) }()
					time.Sleep(time.Millisecond)
					srcs[0].mu.Lock()
					srcs[0].onFetch = nil
					srcs[0].mu.Unlock()
					close(gate)
					<-missDone
					err := <-rerr
					hi := time.Now()
					steps = append(steps, fmt.Sprintf("Refresh called while a lookup miss was inside %s -> %v", srcs[0].name, err))
					if err != nil {
						fail("refresh-error", err.Error())
						break
					}
					c.Inc("refreshes_while_miss_fetch")
					missOverlap = true
					afterRefresh(lo, hi, fmt.Sprintf("step %d refresh overlapping a lookup miss", st))
					missOverlap = false
				case "get-miss":
					// a provider the sources report but the cache may not hold yet
					p := provs[r.Intn(len(provs))]
					want, reported := offered(p)
					got, err := pc.Get(context.Background(), p)
					steps = append(steps, fmt.Sprintf("Get(%s) -> %v %v", short(p), recStr(got), err))
					if err != nil {
						fail("get-error", err.Error())
						break
					}
					v := vis[p]
					if got != nil {
						checkRecord(p, got, "get")
						if v.visible && got.LastAdvertisementTime != "" && versionOf(got) < v.lastVersion {
							fail("record-went-back-in-time", fmt.Sprintf("Get(%s) v%d after v%d", p, versionOf(got), v.lastVersion))
						}
						if !v.visible && neg[p] == nil {
							// cached by the miss path: newest among the responding sources
							if reported && !untimedOnly[p] && versionOf(got) < want {
								fail("miss-fetch-not-newest", fmt.Sprintf("Get(%s) v%d, sources offer v%d", p, versionOf(got), want))
							}
							c.Inc("miss_fetches_positive")
						}
						if !v.visible {
							v.lastVersion = 0
						}
						v.visible, v.everSeen = true, true
						if got.LastAdvertisementTime != "" && versionOf(got) > v.lastVersion {
							v.lastVersion = versionOf(got)
						}
					} else if !v.visible && neg[p] == nil && !reported {
						neg[p] = &c06Neg{}
					} else if reported && !v.everSeen && neg[p] == nil {
						// not demanded by the property (only refreshes are); counted as an observation
						c.Inc("observed_miss_lookup_returned_nothing_for_reported_provider")
					}
				case "get-negative":
					p := strangers[r.Intn(len(strangers))]
					if _, reported := offered(p); reported || vis[p].everSeen {
						break // not (or no longer) a provider unknown to every source
					}
					before := make([]int, nsrc)
					for k, s := range srcs {
						_, one := s.calls()
						before[k] = one[p]
					}
					lo := time.Now()
					got, err := pc.Get(context.Background(), p)
					hi := time.Now()
					after := make([]int, nsrc)
					total := 0
					for k, s := range srcs {
						_, one := s.calls()
						after[k] = one[p] - before[k]
						total += after[k]
					}
					steps = append(steps, fmt.Sprintf("Get(stranger %s) -> %v %v, source Fetch calls %v", short(p), recStr(got), err, after))
					if err != nil || got != nil {
						fail("unknown-provider-returned", fmt.Sprint(recStr(got), err))
						break
					}
					ng := neg[p]
					if ng == nil {
						neg[p] = &c06Neg{createdLo: lo, createdHi: hi}
						c.Inc("negative_entries_created")
					} else {
						// still valid unless a refresh past the ttl has removed it; with the huge ttl it is always valid
						if ttlMode == "huge" && total != 0 {
							fail("negative-entry-not-used", fmt.Sprintf("repeated lookup of unknown provider reached the sources again: %v", after))
						}
						if total == 0 {
							c.Inc("negative_hits")
						} else {
							neg[p] = &c06Neg{createdLo: lo, createdHi: hi}
						}
					}
				case "fail-source":
					s := srcs[r.Intn(nsrc)]
					s.mu.Lock()
					s.failing = true
					s.mu.Unlock()
					steps = append(steps, s.name+" starts failing")
				case "heal-source":
					s := srcs[r.Intn(nsrc)]
					s.mu.Lock()
					s.failing = false
					s.mu.Unlock()
					steps = append(steps, s.name+" healthy")
				case "wait":
					time.Sleep(time.Duration(1+r.Intn(3)) * time.Millisecond)
					steps = append(steps, "wait")
				}
				// a stranger starts being reported now and then
				if r.Intn(12) == 0 {
					p := strangers[r.Intn(len(strangers))]
					s := srcs[r.Intn(nsrc)]
					s.set(p, 1+r.Intn(4))
					steps = append(steps, fmt.Sprintf("%s starts reporting stranger %s", s.name, short(p)))
					c.Inc("strangers_start_being_reported")
				}
			}
		})
		c.Eval(1)
		c.Add("provider_source_pairs_without_advertisement_time", int64(untimed))
		c.Distinct(sub, fmt.Sprint(nsrc, ttlMode, npop, preload), strings.Join(steps[:min(len(steps), 6)], ";"))
		if c.WantSample(sub) && len(steps) > 10 {
			c.Sample(sub, wit())
		}
	}
	c.Add("publications_without_merge", publishes.Load())
	c.Add("publications_with_merge", merges.Load())
}

func short(p peer.ID) string {
	s := p.String()
	return s[len(s)-6:]
}

func recStr(pi *model.ProviderInfo) string {
	if pi == nil {
		return "<nil>"
	}
	return fmt.Sprintf("v%d[%s]", pi.Lag, pi.LastError)
}

// c06HTTPSource: the same convergence rule with the library's own HTTP source reading JSON listings from a server
// whose answers change between refreshes (records advance, regress, disappear, are listed in another order). What
// the cache handed out earlier must also stay what it was: records are published as immutable.
func c06HTTPSource(c *vf.Ctx) {
	const sub = "http-source"
	if !c.Active(sub) {
		return
	}
	var curAll atomic.Pointer[[]byte]
	var curOne atomic.Pointer[map[string][]byte]
	srv := httptest.NewServer(http.HandlerFunc(func(w http.ResponseWriter, req *http.Request) {
		w.Header().Set("Content-Type", "application/json")
		if strings.HasSuffix(req.URL.Path, "/providers") {
			if b := curAll.Load(); b != nil {
				w.Write(*b)
				return
			}
			w.Write([]byte("[]"))
			return
		}
		if m := curOne.Load(); m != nil {
			if b, ok := (*m)[path.Base(req.URL.Path)]; ok {
				w.Write(b)
				return
			}
		}
		http.Error(w, "{}", http.StatusNotFound)
	}))
	defer srv.Close()
	pool := pcPeerPool()[60:68]
	n := c.N(150, 6000)
	for i := 0; i < n; i++ {
		if !c.Mine(sub, i) {
			continue
		}
		r := c.Rand(sub, i)
		nsteps := 3 + r.Intn(6)
		c.Cur(sub, i, fmt.Sprintf("steps=%d", nsteps))
		curAll.Store(nil)
		curOne.Store(nil)
		src, err := pcache.NewHTTPSource(srv.URL+"/providers", nil)
		if err != nil {
			c.Fail(sub, i, "harness-http-source", err.Error(), nil)
			continue
		}
		pc, err := pcache.New(pcache.WithSource(src), pcache.WithTTL(time.Hour), pcache.WithRefreshInterval(0), pcache.WithPreload(false))
		if err != nil {
			c.Fail(sub, i, "pcache-new", err.Error(), nil)
			continue
		}
		best := map[peer.ID]int{}
		type held struct {
			pi   *model.ProviderInfo
			json string
			step int
		}
		var handed []held
		var steps []string
		wit := func() any { return map[string]any{"steps": steps} }
		bad := false
		for st := 0; st < nsteps && !bad; st++ {
			// the server's next listing
			var list []*model.ProviderInfo
			one := map[string][]byte{}
			var desc []string
			for _, p := range pool {
				if r.Intn(4) == 0 {
					continue // not listed this time
				}
				v := 1 + r.Intn(9)
				pi := &model.ProviderInfo{AddrInfo: peer.AddrInfo{ID: p}, Lag: v, LastAdvertisementTime: versionTime(v), LastError: fmt.Sprintf("step%d/v%d", st, v)}
				list = append(list, pi)
				b, _ := json.Marshal(pi)
				one[p.String()] = b
				desc = append(desc, fmt.Sprintf("%s=v%d", p.String()[len(p.String())-4:], v))
			}
			r.Shuffle(len(list), func(a, b int) { list[a], list[b] = list[b], list[a]; desc[a], desc[b] = desc[b], desc[a] })
			body, _ := json.Marshal(list)
			curAll.Store(&body)
			curOne.Store(&one)
			steps = append(steps, fmt.Sprintf("step %d listing: %s", st, strings.Join(desc, " ")))
			if err := pc.Refresh(context.Background()); err != nil {
				c.Fail(sub, i, "refresh-error", err.Error(), wit())
				bad = true
				break
			}
			for _, pi := range list {
				if pi.Lag > best[pi.AddrInfo.ID] {
					best[pi.AddrInfo.ID] = pi.Lag
				}
			}
			listed := map[peer.ID]*model.ProviderInfo{}
			for _, pi := range pc.List() {
				if pi != nil {
					listed[pi.AddrInfo.ID] = pi
				}
			}
			for p, want := range best {
				got, err := pc.Get(context.Background(), p)
				if err != nil || got == nil || listed[p] == nil {
					c.Fail(sub, i, "reported-provider-not-listed-after-refresh:http-source", fmt.Sprintf("step %d provider %s: err=%v", st, p, err), wit())
					bad = true
					break
				}
				if got.AddrInfo.ID != p || listed[p].AddrInfo.ID != p {
					c.Fail(sub, i, "lookup-returns-another-providers-record:http-source", fmt.Sprintf("step %d: asked for %s, got %s", st, p, got.AddrInfo.ID), wit())
					bad = true
					break
				}
				if got.Lag != want || listed[p].Lag != want {
					c.Fail(sub, i, "stale-record-after-refresh:http-source", fmt.Sprintf("step %d provider %s: lookup v%d, listing v%d, freshest seen v%d", st, p, got.Lag, listed[p].Lag, want), wit())
					bad = true
					break
				}
				b, _ := json.Marshal(got)
				handed = append(handed, held{got, string(b), st})
			}
			// what was handed out earlier is still what it was
			for _, h := range handed {
				if b, _ := json.Marshal(h.pi); string(b) != h.json {
					c.Fail(sub, i, "record-handed-out-earlier-changed:http-source", fmt.Sprintf("a record returned at step %d reads %s at step %d, it read %s", h.step, b, st, h.json), wit())
					bad = true
					break
				}
			}
			c.Inc("http_source_refreshes")
		}
		c.Eval(nsteps)
		c.Distinct(sub, fmt.Sprint(nsteps, len(best)))
	}
}
