package props

import "runtime"

func runtimeGosched() { runtime.Gosched() }
