package props

import (
	"context"
	"fmt"
	"sync"
	"time"

	"github.com/ipni/go-libipni/find/model"
	"github.com/libp2p/go-libp2p/core/peer"
)

// scriptSource is a scripted pcache.ProviderSource. Records carry a version:
// LastAdvertisementTime encodes it as a time, Lag carries it as a number and
// LastError a unique tag (source name + version + serial), so that a record
// read back from the cache identifies exactly which delivery it came from.
type scriptSource struct {
	name string

	mu        sync.Mutex
	recs      map[peer.ID]int // provider -> version currently reported (absent = not reported)
	noTime    map[peer.ID]bool
	failing   bool
	serial    int
	delivered map[string]bool // tags ever delivered
	allCalls  int
	oneCalls  map[peer.ID]int

	// hooks for schedules
	onFetchAll func(ctx context.Context) error // called at the start of FetchAll (may block / cancel)
	onFetch    func(ctx context.Context, pid peer.ID) error
	// answerAtCall: Fetch decides its answer when the request arrives and delivers it after the hook returns (a
	// slow source); otherwise the answer is what the source holds when the hook has returned
	answerAtCall bool
}

func newScriptSource(name string) *scriptSource {
	return &scriptSource{name: name, recs: map[peer.ID]int{}, noTime: map[peer.ID]bool{}, delivered: map[string]bool{}, oneCalls: map[peer.ID]int{}}
}

var pcEpoch = time.Date(2024, 1, 1, 0, 0, 0, 0, time.UTC)

// versionTime is the advertisement time of version v: strictly increasing in v as an instant, written the way
// different indexers write it (other zone offsets, fractional seconds, several versions within one second), so that the text of a later time does not
// always sort after the text of an earlier one.
func versionTime(v int) string {
	// 300 ms apart (+100 ms for every third): consecutive versions usually fall into the same whole second, so an
	// implementation that compares at second resolution sees them as equal
	t := pcEpoch.Add(time.Duration(v) * 300 * time.Millisecond)
	if v%3 == 0 {
		t = t.Add(100 * time.Millisecond)
	}
	return t.In(pcZones[v%len(pcZones)]).Format(time.RFC3339Nano)
}

var pcZones = []*time.Location{time.UTC, time.FixedZone("", 5*3600+1800), time.FixedZone("", -8*3600), time.UTC, time.FixedZone("", 14*3600)}

// versionOf recovers the version from a record (0 for records without a time).
func versionOf(pi *model.ProviderInfo) int { return pi.Lag }

func (s *scriptSource) mk(pid peer.ID, v int) *model.ProviderInfo {
	s.serial++
	tag := fmt.Sprintf("%s/v%d/#%d", s.name, v, s.serial)
	s.delivered[tag] = true
	pi := &model.ProviderInfo{AddrInfo: peer.AddrInfo{ID: pid}, Lag: v, LastError: tag}
	if !s.noTime[pid] {
		pi.LastAdvertisementTime = versionTime(v)
	}
	return pi
}

func (s *scriptSource) Fetch(ctx context.Context, pid peer.ID) (*model.ProviderInfo, error) {
	s.mu.Lock()
	s.oneCalls[pid]++
	hook := s.onFetch
	var early *model.ProviderInfo
	atCall := s.answerAtCall
	if atCall && !s.failing {
		if v, ok := s.recs[pid]; ok {
			early = s.mk(pid, v)
		}
	}
	s.mu.Unlock()
	if hook != nil {
		if err := hook(ctx, pid); err != nil {
			return nil, err
		}
	}
	s.mu.Lock()
	defer s.mu.Unlock()
	if atCall && !s.failing {
		return early, nil
	}
	if s.failing {
		return nil, fmt.Errorf("source %s is failing", s.name)
	}
	v, ok := s.recs[pid]
	if !ok {
		return nil, nil
	}
	return s.mk(pid, v), nil
}

func (s *scriptSource) FetchAll(ctx context.Context) ([]*model.ProviderInfo, error) {
	s.mu.Lock()
	s.allCalls++
	hook := s.onFetchAll
	s.mu.Unlock()
	if hook != nil {
		if err := hook(ctx); err != nil {
			return nil, err
		}
	}
	s.mu.Lock()
	defer s.mu.Unlock()
	if s.failing {
		return nil, fmt.Errorf("source %s is failing", s.name)
	}
	out := make([]*model.ProviderInfo, 0, len(s.recs))
	for pid, v := range s.recs {
		out = append(out, s.mk(pid, v))
	}
	return out, nil
}

func (s *scriptSource) String() string { return s.name }

func (s *scriptSource) set(pid peer.ID, v int) {
	s.mu.Lock()
	s.recs[pid] = v
	s.mu.Unlock()
}

func (s *scriptSource) del(pid peer.ID) {
	s.mu.Lock()
	delete(s.recs, pid)
	s.mu.Unlock()
}

func (s *scriptSource) get(pid peer.ID) (int, bool) {
	s.mu.Lock()
	defer s.mu.Unlock()
	v, ok := s.recs[pid]
	return v, ok
}

func (s *scriptSource) calls() (all int, one map[peer.ID]int) {
	s.mu.Lock()
	defer s.mu.Unlock()
	one = map[peer.ID]int{}
	for k, v := range s.oneCalls {
		one[k] = v
	}
	return s.allCalls, one
}

func (s *scriptSource) wasDelivered(tag string) bool {
	s.mu.Lock()
	defer s.mu.Unlock()
	return s.delivered[tag]
}
