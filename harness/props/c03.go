package props

import (
	"github.com/ipni/go-libipni/dagsync/ipnisync"
	"github.com/libp2p/go-libp2p/core/host"
	"math/big"
	"encoding/asn1"
	"crypto/elliptic"
	"bytes"
	"context"
	"encoding/hex"
	"fmt"
	"io"
	"math/rand"
	"net/http"
	"time"
	"strings"
	"sync"
	"sync/atomic"

	"github.com/ipfs/go-cid"
	cidlink "github.com/ipld/go-ipld-prime/linking/cid"
	"github.com/ipni/go-libipni/dagsync"
	"github.com/ipni/go-libipni/dagsync/ipnisync/head"
	"github.com/libp2p/go-libp2p/core/crypto"
	"github.com/libp2p/go-libp2p/core/peer"
	"github.com/multiformats/go-multiaddr"
	"github.com/multiformats/go-multihash"

	"verif/harness/vf"
)

func init() { Registry["C03"] = runC03 }

var c03Topics = []string{"", "/indexer/ingest/mainnet", "t", "тема/日本", strings.Repeat("long-topic-", 30)}

func headSame(a, b *head.SignedHead) bool {
	if a == nil || b == nil || a.Head == nil || b.Head == nil {
		return false
	}
	ta, tb := "", ""
	if a.Topic != nil {
		ta = *a.Topic
	}
	if b.Topic != nil {
		tb = *b.Topic
	}
	if !a.Head.(cidlink.Link).Cid.Equals(b.Head.(cidlink.Link).Cid) || ta != tb || !bytes.Equal(a.Sig, b.Sig) {
		return false
	}
	if bytes.Equal(a.Pubkey, b.Pubkey) {
		return true
	}
	ka, e1 := crypto.UnmarshalPublicKey(a.Pubkey)
	kb, e2 := crypto.UnmarshalPublicKey(b.Pubkey)
	return e1 == nil && e2 == nil && ka.Equals(kb)
}

type headTamper struct {
	name string
	f    func(r *rand.Rand, h *head.SignedHead, other *head.SignedHead, otherID Ident) *head.SignedHead
}

func cpHead(h *head.SignedHead) *head.SignedHead {
	n := *h
	n.Pubkey = append([]byte(nil), h.Pubkey...)
	n.Sig = append([]byte(nil), h.Sig...)
	if h.Topic != nil {
		t := *h.Topic
		n.Topic = &t
	}
	return &n
}

var headTampers = []headTamper{
	{"other-cid", func(r *rand.Rand, h, o *head.SignedHead, oid Ident) *head.SignedHead {
		n := cpHead(h)
		n.Head = cidlink.Link{Cid: randCid(r)}
		return n
	}},
	{"cid-other-form-of-same-multihash", func(r *rand.Rand, h, o *head.SignedHead, oid Ident) *head.SignedHead {
		// another CID over the same digest: other version, or other codec (a different block as far as IPLD goes)
		n := cpHead(h)
		c0 := h.Head.(cidlink.Link).Cid
		var c1 cid.Cid
		if c0.Version() == 0 {
			c1 = cid.NewCidV1([]uint64{cid.DagProtobuf, cid.DagCBOR, cid.DagJSON, cid.Raw}[r.Intn(4)], c0.Hash())
		} else if dm, err := multihash.Decode(c0.Hash()); err == nil && dm.Code == multihash.SHA2_256 && dm.Length == 32 && r.Intn(2) == 0 {
			c1 = cid.NewCidV0(c0.Hash())
		} else {
			var others []uint64
			for _, k := range []uint64{cid.DagProtobuf, cid.DagCBOR, cid.DagJSON, cid.Raw} {
				if k != c0.Type() {
					others = append(others, k)
				}
			}
			codec := others[r.Intn(len(others))]
			c1 = cid.NewCidV1(codec, c0.Hash())
		}
		if c1.Equals(c0) {
			return nil
		}
		n.Head = cidlink.Link{Cid: c1}
		return n
	}},
	{"topic-changed", func(r *rand.Rand, h, o *head.SignedHead, oid Ident) *head.SignedHead {
		n := cpHead(h)
		t := "x"
		if h.Topic != nil {
			t = *h.Topic + "x"
		}
		n.Topic = &t
		return n
	}},
	{"topic-removed", func(r *rand.Rand, h, o *head.SignedHead, oid Ident) *head.SignedHead {
		n := cpHead(h)
		n.Topic = nil
		return n
	}},
	{"key-of-another-identity", func(r *rand.Rand, h, o *head.SignedHead, oid Ident) *head.SignedHead {
		n := cpHead(h)
		n.Pubkey = append([]byte(nil), o.Pubkey...)
		return n
	}},
	{"key-byte-flipped", func(r *rand.Rand, h, o *head.SignedHead, oid Ident) *head.SignedHead {
		n := cpHead(h)
		n.Pubkey = flipOne(r, n.Pubkey)
		return n
	}},
	{"sig-byte-flipped", func(r *rand.Rand, h, o *head.SignedHead, oid Ident) *head.SignedHead {
		n := cpHead(h)
		n.Sig = flipOne(r, n.Sig)
		return n
	}},
	{"sig-removed", func(r *rand.Rand, h, o *head.SignedHead, oid Ident) *head.SignedHead {
		n := cpHead(h)
		n.Sig = nil
		return n
	}},
	{"key-unknown-protobuf-field-appended", func(r *rand.Rand, h, o *head.SignedHead, oid Ident) *head.SignedHead {
		// the key is a protobuf message: a further field with an unknown number, appended after the known ones
		n := cpHead(h)
		n.Pubkey = append(append([]byte(nil), n.Pubkey...), 0x18, 0x01)
		return n
	}},
	{"sig-byte-appended", func(r *rand.Rand, h, o *head.SignedHead, oid Ident) *head.SignedHead {
		n := cpHead(h)
		n.Sig = append(append([]byte(nil), n.Sig...), byte(r.Intn(256)))
		return n
	}},
	{"sig-last-byte-dropped", func(r *rand.Rand, h, o *head.SignedHead, oid Ident) *head.SignedHead {
		n := cpHead(h)
		if len(n.Sig) < 2 {
			return nil
		}
		n.Sig = append([]byte(nil), n.Sig[:len(n.Sig)-1]...)
		return n
	}},
	{"sig-ecdsa-s-negated", func(r *rand.Rand, h, o *head.SignedHead, oid Ident) *head.SignedHead {
		// the other valid encoding of an ECDSA signature over the same message: (r, n-s)
		var sig struct{ R, S *big.Int }
		rest, err := asn1.Unmarshal(h.Sig, &sig)
		if err != nil || len(rest) != 0 || sig.R == nil || sig.S == nil {
			return nil
		}
		for _, order := range []*big.Int{elliptic.P256().Params().N, secp256k1N} {
			if sig.S.Cmp(order) < 0 && sig.R.Cmp(order) < 0 {
				n := cpHead(h)
				neg := new(big.Int).Sub(order, sig.S)
				b, err := asn1.Marshal(struct{ R, S *big.Int }{sig.R, neg})
				if err != nil {
					return nil
				}
				n.Sig = b
				if oid.Type == "secp256k1" && order != secp256k1N {
					continue
				}
				if oid.Type != "secp256k1" && order == secp256k1N {
					continue
				}
				return n
			}
		}
		return nil
	}},
	{"key-and-sig-swapped-from-other-head", func(r *rand.Rand, h, o *head.SignedHead, oid Ident) *head.SignedHead {
		n := cpHead(h)
		n.Pubkey = append([]byte(nil), o.Pubkey...)
		n.Sig = append([]byte(nil), o.Sig...)
		return n
	}},
	{"sig-from-other-head-same-key", func(r *rand.Rand, h, o *head.SignedHead, oid Ident) *head.SignedHead {
		// signature made by the SAME key over another cid
		n := cpHead(h)
		return n // filled by caller (needs the private key)
	}},
	{"resigned-by-another-identity", func(r *rand.Rand, h, o *head.SignedHead, oid Ident) *head.SignedHead {
		n := cpHead(h)
		if err := n.Sign(oid.Priv); err != nil {
			return nil
		}
		return n
	}},
}

var secp256k1N, _ = new(big.Int).SetString("FFFFFFFFFFFFFFFFFFFFFFFFFFFFFFFEBAAEDCE6AF48A03BBFD25E8CD0364141", 16)

type c03Case struct {
	id, other Ident
	root      cid.Cid
	topic     string
	orig      *head.SignedHead
	otherHead *head.SignedHead
}

func c03Gen(r *rand.Rand) (c03Case, error) {
	ids := allIdents()
	cs := c03Case{id: ids[r.Intn(len(ids))], root: randCid(r), topic: c03Topics[r.Intn(len(c03Topics))]}
	if r.Intn(6) == 0 {
		mh, _ := multihash.Sum(rbytes(r, 9), multihash.SHA2_256, -1)
		cs.root = cid.NewCidV0(mh)
	}
	for {
		cs.other = ids[r.Intn(len(ids))]
		if cs.other.ID != cs.id.ID {
			break
		}
	}
	var err error
	cs.orig, err = head.NewSignedHead(cs.root, cs.topic, cs.id.Priv)
	if err != nil {
		return cs, err
	}
	cs.otherHead, err = head.NewSignedHead(randCid(r), cs.topic, cs.other.Priv)
	return cs, err
}

// c03TamperKey: re-encodings of the signature bytes are classified per key type (what a signature scheme accepts as
// "the same signature" differs between schemes)
func c03TamperKey(name, keyType string) string {
	switch name {
	case "sig-ecdsa-s-negated", "sig-byte-appended", "sig-last-byte-dropped":
		return name + ":" + keyType
	}
	return name
}

func (cs c03Case) tamper(r *rand.Rand, t headTamper) *head.SignedHead {
	if t.name == "sig-from-other-head-same-key" {
		o2, err := head.NewSignedHead(randCid(r), cs.topic, cs.id.Priv)
		if err != nil {
			return nil
		}
		n := cpHead(cs.orig)
		n.Sig = o2.Sig
		return n
	}
	if t.name == "sig-ecdsa-s-negated" {
		return t.f(r, cs.orig, cs.otherHead, cs.id) // (needs the signer's key type)
	}
	return t.f(r, cs.orig, cs.otherHead, cs.other)
}

func runC03(c *vf.Ctx) {
	c03PublisherRace(c)
	c03Codec(c)
	c03Bytes(c)
	c03EndToEnd(c)
	c03HeadQuery(c)
}

// the publisher signs the CURRENT root on every head request, also while SetRoot races with head requests
func c03PublisherRace(c *vf.Ctx) {
	const sub = "publisher-head-under-setroot"
	if !c.Active(sub) {
		return
	}
	n := c.N(8, 80)
	for i := 0; i < n; i++ {
		if !c.Mine(sub, i) {
			continue
		}
		r := c.Rand(sub, i)
		id := Keys()[KeyTypes[i%len(KeyTypes)]][0]
		topic := c03Topics[r.Intn(len(c03Topics))]
		c.Cur(sub, i, id.String())
		st := NewStore()
		chain, err := NewChain(r, st, 40, id.ID, linkProto(multihash.SHA2_256, -1))
		if err != nil {
			continue
		}
		front, err := NewFront(c, id, st, MountPlain, topic)
		if err != nil {
			continue
		}
		u := front.URL.JoinPath("/ipni/v1/ad", "head").String()
		var setIdx atomic.Int64 // index of the last root whose SetRoot has RETURNED
		front.Pub.SetRoot(chain.Cids[0])
		stop := make(chan struct{})
		var wg sync.WaitGroup
		var fmu sync.Mutex
		failed := false
		fail := func(key, detail string) {
			fmu.Lock()
			defer fmu.Unlock()
			if !failed {
				failed = true
				c.Fail(sub, i, key, detail, map[string]any{"publisher": id.String(), "topic": topic})
			}
		}
		checkHead := func(minIdx int64) {
			b, err := httpGet(u)
			if err != nil {
				fail("publisher-head-request-failed", err.Error())
				return
			}
			h, err := head.Decode(bytes.NewReader(b))
			if err != nil {
				fail("publisher-serves-undecodable-head", err.Error())
				return
			}
			signer, err := h.Validate()
			if err != nil || signer != id.ID {
				fail("publisher-serves-invalid-head:"+id.Type, fmt.Sprint(err))
				return
			}
			pos := int64(chain.Pos(h.Head.(cidlink.Link).Cid))
			if pos < minIdx {
				fail("publisher-serves-stale-head", fmt.Sprintf("head #%d served although SetRoot(#%d) had returned before the request was sent", pos, minIdx))
			}
		}
		for g := 0; g < 6; g++ {
			wg.Add(1)
			go func() {
				defer wg.Done()
				for {
					select {
					case <-stop:
						return
					default:
					}
					checkHead(setIdx.Load())
				}
			}()
		}
		for k := 1; k < len(chain.Cids); k++ {
			front.Pub.SetRoot(chain.Cids[k])
			setIdx.Store(int64(k))
			checkHead(int64(k))
			c.Inc("setroot_then_head_checks")
		}
		close(stop)
		wg.Wait()
		front.Close()
		c.Eval(len(chain.Cids))
		c.Distinct(sub, id.Type, topic)
	}
}

// field-level tampering, decided by Validate + the signer comparison the caller makes
func c03Codec(c *vf.Ctx) {
	const sub = "codec-fields"
	if !c.Active(sub) {
		return
	}
	n := c.N(3000, 80000)
	for i := 0; i < n; i++ {
		if !c.Mine(sub, i) {
			continue
		}
		r := c.Rand(sub, i)
		cs, err := c03Gen(r)
		c.Cur(sub, i, fmt.Sprintf("%s topic=%q", cs.id, cs.topic))
		if err != nil {
			c.Fail(sub, i, "sign-error", err.Error(), nil)
			continue
		}
		wit := func() any {
			enc, _ := cs.orig.Encode()
			return map[string]any{"signer": cs.id.String(), "root": cs.root.String(), "topic": cs.topic, "head_dagjson": string(enc)}
		}
		c.Guard(sub, i, wit, func() {
			enc, err := cs.orig.Encode()
			if err != nil {
				c.Fail(sub, i, "encode-error", err.Error(), wit())
				return
			}
			dec, err := head.Decode(bytes.NewReader(enc))
			if err != nil {
				c.Fail(sub, i, "decode-error", err.Error(), wit())
				return
			}
			signer, err := dec.Validate()
			if err != nil || signer != cs.id.ID {
				c.Fail(sub, i, "own-head-rejected:"+cs.id.Type, fmt.Sprintf("err=%v signer=%s", err, signer), wit())
			}
			if !dec.Head.(cidlink.Link).Cid.Equals(cs.root) {
				c.Fail(sub, i, "head-cid-differs", "", wit())
			}
		})
		c.Eval(1)
		for _, t := range headTampers {
			th := cs.tamper(r, t)
			if th == nil || headSame(th, cs.orig) {
				c.Inc("semantically_identical_skipped")
				continue
			}
			w := func() any {
				m := wit().(map[string]any)
				m["alteration"] = t.name
				if e, err := th.Encode(); err == nil {
					m["altered_dagjson"] = string(e)
				}
				return m
			}
			c.Guard(sub, i, w, func() {
				// through the wire format when encodable
				cand := th
				if enc, err := th.Encode(); err == nil {
					if d, err := head.Decode(bytes.NewReader(enc)); err == nil {
						cand = d
					} else {
						return // not decodable: rejected
					}
				}
				signer, err := cand.Validate()
				if err == nil && signer == cs.id.ID {
					c.Fail(sub, i, "altered-head-validates:"+c03TamperKey(t.name, cs.id.Type), fmt.Sprintf("key type %s", cs.id.Type), w())
				}
			})
			c.Eval(1)
			c.Inc("tamper_" + t.name)
			c.Distinct(sub, cs.id.Type, t.name, fmt.Sprint(cs.topic == ""))
		}
		if c.WantSample(sub) {
			c.Sample(sub, wit())
		}
	}
}

// every byte of the encoded head
func c03Bytes(c *vf.Ctx) {
	const sub = "codec-bytes"
	if !c.Active(sub) {
		return
	}
	n := c.N(300, 12000)
	for i := 0; i < n; i++ {
		if !c.Mine(sub, i) {
			continue
		}
		r := c.Rand(sub, i)
		cs, err := c03Gen(r)
		if err != nil {
			continue
		}
		enc, _ := cs.orig.Encode()
		c.Cur(sub, i, string(enc))
		for pos := 0; pos < len(enc); pos++ {
			alt := append([]byte(nil), enc...)
			if r.Intn(2) == 0 {
				alt[pos] ^= 1 << uint(r.Intn(8))
			} else {
				alt[pos] = "0123456789abcdefABCDEFxyz+/=\"{}:,"[r.Intn(33)]
				if alt[pos] == enc[pos] {
					alt[pos] ^= 1
				}
			}
			w := func() any {
				return map[string]any{"signer": cs.id.String(), "head_dagjson": string(enc), "altered": string(alt), "byte": pos}
			}
			c.Guard(sub, i, w, func() {
				d, err := head.Decode(bytes.NewReader(alt))
				if err != nil {
					c.Inc("bytes_undecodable")
					return
				}
				if headSame(d, cs.orig) {
					c.Inc("semantically_identical_skipped")
					return
				}
				signer, err := d.Validate()
				if err == nil && signer == cs.id.ID {
					c.Fail(sub, i, "altered-bytes-validate", fmt.Sprintf("byte %d of %d (key type %s)", pos, len(enc), cs.id.Type), w())
				}
				c.Inc("bytes_decodable_rejected")
			})
			c.Eval(1)
		}
		c.Distinct(sub, cs.id.Type, fmt.Sprint(len(enc)))
		if c.WantSample(sub) {
			c.Sample(sub, map[string]any{"head_dagjson": string(enc), "bytes_altered": len(enc)})
		}
	}
}

func newSubscriber(st *Store, opts ...dagsync.Option) (*dagsync.Subscriber, error) {
	return dagsync.NewSubscriber(nil, st.Lsys, opts...)
}

// end to end: the subscriber asked to sync publisher P is served an altered head
func c03EndToEnd(c *vf.Ctx) {
	const sub = "end-to-end"
	if !c.Active(sub) {
		return
	}
	n := c.N(1000, 16000)
	for i := 0; i < n; i++ {
		if !c.Mine(sub, i) {
			continue
		}
		r := c.Rand(sub, i)
		cs, err := c03Gen(r)
		if err != nil {
			continue
		}
		mode := MountPlain
		if r.Intn(4) == 0 {
			mode = MountDiscovery
		}
		idInAddrOnly := r.Intn(3) == 0
		tk := r.Intn(len(headTampers) + 8)
		c.Cur(sub, i, fmt.Sprintf("%s mode=%s tamper=%d", cs.id, mode, tk))
		pubStore := NewStore()
		chain, err := NewChain(r, pubStore, 1+r.Intn(3), cs.id.ID, linkProto(multihash.SHA2_256, -1))
		if err != nil {
			c.Fail(sub, i, "harness-chain", err.Error(), nil)
			continue
		}
		front, err := NewFront(c, cs.id, pubStore, mode, cs.topic)
		if err != nil {
			c.Fail(sub, i, "harness-front", err.Error(), nil)
			continue
		}
		front.Pub.SetRoot(chain.Head())
		// the genuine head as the publisher serves it (also checks the publisher side)
		genuine, gerr := httpGet(front.URL.JoinPath("/ipni/v1/ad", "head").String())
		var gh *head.SignedHead
		if gerr == nil {
			gh, gerr = head.Decode(bytes.NewReader(genuine))
		}
		if gerr != nil {
			c.Fail(sub, i, "publisher-head-undecodable", gerr.Error(), nil)
			front.Close()
			continue
		}
		if signer, err := gh.Validate(); err != nil || signer != cs.id.ID || !gh.Head.(cidlink.Link).Cid.Equals(chain.Head()) ||
			(cs.topic != "" && (gh.Topic == nil || *gh.Topic != cs.topic)) {
			c.Fail(sub, i, "publisher-serves-invalid-head:"+cs.id.Type, fmt.Sprintf("err=%v signer=%s", err, signer), map[string]any{"head": string(genuine), "publisher": cs.id.String()})
		}
		c.Inc("publisher_heads_checked")
		front.ResetLog()

		cs.orig = gh
		var body []byte
		var tname string
		expectReject := true
		askOther := false
		askOtherAfterGood := false
		priorSync := false // the same subscriber first syncs a genuine, older head (its sync client is then reused)
		switch {
		case tk < len(headTampers):
			t := headTampers[tk]
			tname = c03TamperKey(t.name, cs.id.Type)
			// for "other-cid" point at a real, fetchable block so that a sync would be possible
			th := cs.tamper(r, t)
			if t.name == "other-cid" && len(chain.Cids) > 1 {
				th = cpHead(gh)
				th.Head = cidlink.Link{Cid: chain.Cids[0]}
			}
			if th == nil || headSame(th, gh) {
				front.Close()
				c.Inc("semantically_identical_skipped")
				continue
			}
			body, err = th.Encode()
			if err != nil {
				front.Close()
				continue
			}
		case tk == len(headTampers):
			tname = "valid-head-of-another-identity-for-same-cid"
			oh, _ := head.NewSignedHead(chain.Head(), cs.topic, cs.other.Priv)
			body, _ = oh.Encode()
		case tk == len(headTampers)+1:
			tname = "garbage-body"
			body = rbytes(r, 1+r.Intn(200))
		case tk == len(headTampers)+2:
			tname = "random-byte-altered"
			for {
				body = append([]byte(nil), genuine...)
				body[r.Intn(len(body))] ^= 1 << uint(r.Intn(8))
				if d, err := head.Decode(bytes.NewReader(body)); err != nil || !headSame(d, gh) {
					break
				}
			}
		case tk == len(headTampers)+3 || tk == len(headTampers)+4:
			tname = "replay-of-earlier-genuine-head-with-another-cid"
			priorSync = len(chain.Cids) > 1
		case tk == len(headTampers)+6:
			// the subscriber has synced the real publisher at this address; then the caller asks for ANOTHER identity
			// at the very same address (whatever the subscriber remembers about the address must not stand in for
			// the check of the head's signer)
			tname = "asked-for-another-identity-at-an-address-synced-before"
			askOtherAfterGood = true
		case tk == len(headTampers)+5:
			// the caller asks for identity A; the address it passes ends in /p2p/B and leads to B's publisher,
			// which serves its own genuine head: not signed by the publisher the caller asked to sync
			tname = "asked-for-another-identity-than-the-one-in-the-address"
			askOther = true
		default:
			tname = "untampered"
			expectReject = false
		}
		if body != nil {
			b := body
			front.Plan = func(ev ReqEvent) *Fault {
				if ev.Rsrc == "head" {
					return &Fault{Body: b, Label: tname}
				}
				return nil
			}
		}
		if tname == "replay-of-earlier-genuine-head-with-another-cid" && !priorSync {
			front.Close()
			continue
		}
		dst := NewStore()
		var hooks []string
		s, err := newSubscriber(dst, dagsync.BlockHook(func(p peer.ID, c cid.Cid, _ dagsync.SegmentSyncActions) { hooks = append(hooks, c.String()) }))
		if err != nil {
			c.Fail(sub, i, "harness-subscriber", err.Error(), nil)
			front.Close()
			continue
		}
		pi := front.AddrInfo()
		if idInAddrOnly {
			p2p, _ := multiaddr.NewComponent("p2p", cs.id.ID.String())
			pi = peer.AddrInfo{Addrs: []multiaddr.Multiaddr{front.Addr.Encapsulate(p2p)}}
		}
		var baseLatest cid.Cid
		if askOtherAfterGood {
			if _, err := s.SyncAdChain(context.Background(), pi); err != nil {
				c.Fail(sub, i, "genuine-head-rejected:"+cs.id.Type, err.Error(), nil)
				front.Close()
				s.Close()
				continue
			}
			baseLatest = chain.Head()
			pi = peer.AddrInfo{ID: cs.other.ID, Addrs: []multiaddr.Multiaddr{front.Addr}}
			front.ResetLog()
			hooks = nil
			c.Inc("e2e_asked_for_other_identity_after_good_sync")
		}
		if askOther {
			p2p, _ := multiaddr.NewComponent("p2p", cs.id.ID.String())
			pi = peer.AddrInfo{ID: cs.other.ID, Addrs: []multiaddr.Multiaddr{front.Addr.Encapsulate(p2p)}}
			c.Inc("e2e_asked_for_other_identity_than_in_address")
		}
		wit := func() any {
			return map[string]any{"publisher": cs.id.String(), "alteration": tname, "mount": mode.String(), "id_only_in_address": idInAddrOnly,
				"genuine_head": string(genuine), "served_head": string(body), "requests": BlockRequests(front.Log()), "hooks": hooks}
		}
		if priorSync {
			// genuine sync of the oldest advertisement; then the publisher moves on and the response to the
			// next head query is the EARLIER genuine response (same key, same signature) with the new head's CID
			front.Pub.SetRoot(chain.Cids[0])
			old, gerr := httpGet(front.URL.JoinPath("/ipni/v1/ad", "head").String())
			if gerr != nil {
				front.Close()
				s.Close()
				continue
			}
			if _, err := s.SyncAdChain(context.Background(), pi); err != nil {
				c.Fail(sub, i, "genuine-head-rejected:"+cs.id.Type, err.Error(), nil)
				front.Close()
				s.Close()
				continue
			}
			baseLatest = chain.Cids[0]
			oh, derr := head.Decode(bytes.NewReader(old))
			if derr != nil {
				front.Close()
				s.Close()
				continue
			}
			oh.Head = cidlink.Link{Cid: chain.Head()}
			body, _ = oh.Encode()
			b := body
			front.Pub.SetRoot(chain.Head())
			front.Plan = func(ev ReqEvent) *Fault {
				if ev.Rsrc == "head" {
					return &Fault{Body: b, Label: tname}
				}
				return nil
			}
			front.ResetLog()
			hooks = nil
			c.Inc("e2e_replays_after_genuine_sync")
		}
		writesBefore := dst.NumWrites()
		c.Guard(sub, i, wit, func() {
			got, err := s.SyncAdChain(context.Background(), pi)
			latest := s.GetLatestSync(cs.id.ID)
			reqs := BlockRequests(front.Log())
			afterHead := 0
			seenHead := false
			for _, q := range reqs {
				if q == "head" {
					seenHead = true
				} else if seenHead {
					afterHead++
				}
			}
			if expectReject {
				if err == nil {
					c.Fail(sub, i, "altered-head-accepted:"+tname, fmt.Sprintf("SyncAdChain returned %s", got), wit())
				}
				if afterHead != 0 || len(hooks) != 0 || dst.NumWrites() != writesBefore {
					c.Fail(sub, i, "altered-head-caused-sync:"+tname, fmt.Sprintf("%d block requests after head, %d hooks, %d writes", afterHead, len(hooks), dst.NumWrites()-writesBefore), wit())
				}
				if (latest == nil) != !baseLatest.Defined() || (latest != nil && !latest.(cidlink.Link).Cid.Equals(baseLatest)) {
					c.Fail(sub, i, "altered-head-changed-latest:"+tname, fmt.Sprint(latest), wit())
				}
				if (askOther || askOtherAfterGood) && s.GetLatestSync(cs.other.ID) != nil {
					c.Fail(sub, i, "altered-head-changed-latest:"+tname, "latest-synced recorded for the identity asked for", wit())
				}
				c.Inc("e2e_rejections_expected")
			} else {
				if err != nil || !got.Equals(chain.Head()) {
					c.Fail(sub, i, "genuine-head-rejected:"+cs.id.Type, fmt.Sprintf("err=%v got=%s", err, got), wit())
				} else if latest == nil || !latest.(cidlink.Link).Cid.Equals(chain.Head()) {
					c.Fail(sub, i, "genuine-sync-latest-not-set", "", wit())
				}
				c.Inc("e2e_genuine_syncs")
			}
		})
		s.Close()
		front.Close()
		c.Eval(1)
		c.Distinct(sub, cs.id.Type, tname, mode.String(), fmt.Sprint(idInAddrOnly))
		c.Inc("e2e_mode_" + mode.String())
		if c.WantSample(sub) && expectReject {
			c.Sample(sub, wit())
		}
	}
}

func httpGet(u string) ([]byte, error) {
	resp, err := http.Get(u)
	if err != nil {
		return nil, err
	}
	defer resp.Body.Close()
	b, err := io.ReadAll(resp.Body)
	if err != nil {
		return nil, err
	}
	if resp.StatusCode != 200 {
		return nil, fmt.Errorf("status %d: %s", resp.StatusCode, b)
	}
	return b, nil
}

var _ = hex.EncodeToString

// c03HeadQuery: the sync client's head query, for roots of every CID form (v0, v1 with several codecs, identity
// hashed), over every way of reaching the publisher (plain HTTP, libp2p-HTTP discovery, libp2p streams): it yields
// exactly the CID the publisher was given, and yields nothing when the head was validly signed by another identity.
func c03HeadQuery(c *vf.Ctx) {
	const sub = "head-query"
	if !c.Active(sub) {
		return
	}
	n := c.N(120, 2500)
	for i := 0; i < n; i++ {
		if !c.Mine(sub, i) {
			continue
		}
		r := c.Rand(sub, i)
		cs, err := c03Gen(r)
		if err != nil {
			continue
		}
		switch r.Intn(4) {
		case 0:
			mh, _ := multihash.Sum(rbytes(r, 9), multihash.SHA2_256, -1)
			cs.root = cid.NewCidV0(mh)
		case 1:
			mh, _ := multihash.Sum(rbytes(r, 1+r.Intn(30)), multihash.IDENTITY, -1)
			cs.root = cid.NewCidV1(cid.Raw, mh)
		}
		mode := []FrontMode{MountPlain, MountDiscovery, MountStream}[i%3]
		foreign := r.Intn(3) == 0 // the head is validly signed, by another identity
		desc := fmt.Sprintf("%s root=%s mode=%s signed-by-another-identity=%v", cs.id, cs.root, mode, foreign)
		c.Cur(sub, i, desc)
		wit := func() any { return map[string]any{"case": desc} }
		front, err := NewFront(c, cs.id, NewStore(), mode, cs.topic)
		if err != nil {
			c.Fail(sub, i, "harness-front", err.Error(), nil)
			continue
		}
		front.Pub.SetRoot(cs.root)
		if foreign {
			oh, _ := head.NewSignedHead(cs.root, cs.topic, cs.other.Priv)
			b, _ := oh.Encode()
			front.Plan = func(ev ReqEvent) *Fault {
				if ev.Rsrc == "head" {
					return &Fault{Body: b, Label: "head signed by another identity"}
				}
				return nil
			}
		}
		var copts []ipnisync.ClientOption
		var ch host.Host
		if mode == MountStream {
			if ch, err = newHost(); err != nil {
				c.Inconclusive(sub, i, "host-create", err.Error(), nil)
				front.Close()
				continue
			}
			copts = append(copts, ipnisync.ClientStreamHost(ch))
		}
		c.Guard(sub, i, wit, func() {
			isync := ipnisync.NewSync(NewStore().Lsys, nil, copts...)
			defer isync.Close()
			syncer, err := isync.NewSyncer(front.AddrInfo())
			// (creating the client is a precondition of the case, not a clause of the property; on a loaded machine
			// the libp2p connection it needs can time out: tried again, then left undecided)
			for try := 0; try < 3 && err != nil; try++ {
				c.Inc("newsyncer_retries")
				time.Sleep([]time.Duration{100 * time.Millisecond, 500 * time.Millisecond, 2 * time.Second}[try])
				syncer, err = isync.NewSyncer(front.AddrInfo())
			}
			if err != nil {
				c.Inconclusive(sub, i, "newsyncer-error", err.Error(), wit())
				return
			}
			got, err := syncer.GetHead(context.Background())
			switch {
			case foreign && err == nil:
				c.Fail(sub, i, "altered-head-accepted:valid-head-of-another-identity:"+mode.String(), fmt.Sprintf("GetHead returned %s", got), wit())
			case !foreign && err != nil:
				c.Fail(sub, i, "genuine-head-rejected:"+cs.id.Type, err.Error(), wit())
			case !foreign && (got.String() != cs.root.String() || !bytes.Equal(got.Bytes(), cs.root.Bytes())):
				c.Fail(sub, i, "head-query-yields-another-cid-than-the-signed-one", fmt.Sprintf("got %s, the publisher signed %s", got, cs.root), wit())
			}
		})
		if ch != nil {
			ch.Close()
		}
		front.Close()
		c.Eval(1)
		c.Inc("head_queries_" + mode.String())
		c.Distinct(sub, cs.id.Type, mode.String(), fmt.Sprint(foreign), fmt.Sprint(cs.root.Version(), cs.root.Prefix().MhType))
	}
}
