package props

import (
	"context"
	"fmt"
	"math/rand"
	"sort"
	"strings"
	"sync"
	"sync/atomic"
	"time"

	"github.com/ipfs/go-cid"
	cidlink "github.com/ipld/go-ipld-prime/linking/cid"
	"github.com/ipni/go-libipni/dagsync"
	"github.com/libp2p/go-libp2p/core/peer"
	"github.com/multiformats/go-multihash"

	"verif/harness/vf"
)

func init() { Registry["C08"] = runC08 }

type c08Pub struct {
	id    Ident
	st    *Store
	chain *Chain
	front *Front
	mu    sync.Mutex
	ann   []cid.Cid // announced heads, in order
	failOn func()
	failSlow string // a head block whose first request is held for a moment and then answered 500
	slowArrived chan struct{}
	slowOnce    sync.Once
	cancelAtHook atomic.Pointer[context.CancelFunc]
}

type c08Cfg struct {
	LastKnown bool // baseline supplied through WithLastKnownSync (a restarted indexer), callback delays
	Timeouts  bool // some explicit syncs carry a context that expires while they wait
	K        int
	MaxAsync int // 0 = unset
	Explicit bool
	Bursts   int
	Delay    int
	Stall    int // per mille of block requests that are held for a moment
	Fail     int // per mille of first requests for a block that are answered 500 (the sync fails)
	IdleTTL  int // microseconds; >0: idle-handler time-to-live far shorter than a sync takes
	Remove   bool // the application calls RemoveHandler for the publishers now and then, whatever they are doing
	EarlyClose bool // the subscriber is closed while announcements and explicit syncs are still coming in
}

func (k c08Cfg) String() string {
	return fmt.Sprintf("publishers=%d max-async=%d explicit-syncs=%v bursts=%d tap-delay=%d/1000 stall=%d/1000 last-known-baseline=%v explicit-timeouts=%v failing-requests=%d/1000 idle-handler-ttl=%dus remove-handler-calls=%v close-in-mid-run=%v", k.K, k.MaxAsync, k.Explicit, k.Bursts, k.Delay, k.Stall, k.LastKnown, k.Timeouts, k.Fail, k.IdleTTL, k.Remove, k.EarlyClose)
}

func runC08(c *vf.Ctx) {
	c08Run(c, "announce-only", false, false)
	c08Run(c, "mixed-with-explicit", true, false)
	c08Run(c, "restart-with-last-known", false, true)
}

func c08Run(c *vf.Ctx, sub string, explicit, lastKnown bool) {
	if !c.Active(sub) {
		return
	}
	n := c.N(150, 8000)
	if explicit {
		n = c.N(80, 4000)
	}
	if lastKnown {
		n = c.N(60, 2500)
	}
	ids := allIdents()
	for i := 0; i < n; i++ {
		if !c.Mine(sub, i) || c08Stuck.Load() >= 2 {
			continue // every stuck run costs the full quiescence deadline; two settle the verdict
		}
		r := c.Rand(sub, i)
		k := c08Cfg{LastKnown: lastKnown, Timeouts: explicit && r.Intn(2) == 0, K: 1 + r.Intn(4), Explicit: explicit, Bursts: 2 + r.Intn(4), Delay: []int{0, 100, 300, 600}[r.Intn(4)], Stall: []int{0, 100, 300}[r.Intn(3)]}
		if !explicit && r.Intn(2) == 0 {
			k.Fail = []int{60, 150, 300}[r.Intn(3)]
		}
		if r.Intn(5) == 0 {
			k.Remove = true
			if k.Stall == 0 {
				k.Stall = 300
			}
		}
		if r.Intn(4) == 0 {
			// the idle-handler cleaner runs many times while syncs (held at the publisher) are in progress
			k.IdleTTL = []int{300, 1000, 3000}[r.Intn(3)]
			if k.Stall == 0 {
				k.Stall = 300
			}
		}
		switch r.Intn(6) {
		case 0:
		case 1:
			k.MaxAsync = 1
		case 2:
			k.MaxAsync = 2
		case 3:
			k.MaxAsync = max(1, k.K-1)
		case 4:
			k.MaxAsync = k.K
		default:
			k.MaxAsync = k.K + 1
		}
		// a limit below the number of publishers, explicit syncs running, and Close in the middle of it all: until
		// Close has let the explicit syncs finish, the announce-triggered ones are still bound by the limit
		k.EarlyClose = explicit && k.MaxAsync > 0 && k.MaxAsync < k.K && !k.Remove && k.IdleTTL == 0 && i%2 == 0
		c.Cur(sub, i, k.String())
		c08One(c, sub, i, r, k, ids)
	}
}

var c08Stuck atomic.Int64

type c08Hook struct {
	T    int64
	Peer peer.ID
	Cid  cid.Cid
}

func c08One(c *vf.Ctx, sub string, i int, r *rand.Rand, k c08Cfg, ids []Ident) {
	pubs := make([]*c08Pub, k.K)
	byID := map[peer.ID]*c08Pub{}
	for x := range pubs {
		p := &c08Pub{id: ids[(i*4+x)%len(ids)], st: NewStore(), slowArrived: make(chan struct{})}
		for byID[p.id.ID] != nil {
			p.id = ids[r.Intn(len(ids))]
		}
		var err error
		p.chain, err = NewChain(r, p.st, 1, p.id.ID, linkProto(multihash.SHA2_256, -1))
		if err == nil {
			p.front, err = NewFront(c, p.id, p.st, MountPlain, "")
		}
		if err != nil {
			c.Fail(sub, i, "harness-env", err.Error(), nil)
			return
		}
		defer p.front.Close()
		p.front.Pub.SetRoot(p.chain.Head())
		stallR := rand.New(rand.NewSource(r.Int63()))
		var smu sync.Mutex
		stall, fail := k.Stall, k.Fail
		if !k.LastKnown {
			fail = 0 // (switched on after the baseline sync)
		}
		p.failOn = func() { smu.Lock(); fail = k.Fail; smu.Unlock() }
		p.front.Plan = func(ev ReqEvent) *Fault {
			if ev.Rsrc == "head" || (stall == 0 && k.Fail == 0) {
				return nil
			}
			p.mu.Lock()
			slow := p.failSlow != "" && ev.Rsrc == p.failSlow && ev.Occur == 0
			p.mu.Unlock()
			if slow {
				return &Fault{Status: 500, Gate: closedAfter(2500 * time.Microsecond), Label: "injected-500-slow", OnArrive: func() {
					p.slowOnce.Do(func() { close(p.slowArrived) })
				}}
			}
			smu.Lock()
			fail := fail
			hit := stallR.Intn(1000) < stall
			d := time.Duration(200+stallR.Intn(3000)) * time.Microsecond
			bad := ev.Occur == 0 && stallR.Intn(1000) < fail
			smu.Unlock()
			if bad {
				// the sync that asked for this block fails; the next request for it is served
				f := &Fault{Status: 500, Label: "injected-500"}
				if hit {
					f.Gate = closedAfter(d)
				}
				return f
			}
			if hit {
				return &Fault{Gate: closedAfter(d), Label: "held"}
			}
			return nil
		}
		pubs[x] = p
		byID[p.id.ID] = p
	}
	tl := installTap(c, r.Int63(), k.Delay)
	defer tl.uninstall()
	dst := NewStore()
	var hmu sync.Mutex
	var hooks []c08Hook
	hook := func(p peer.ID, cd cid.Cid, act dagsync.SegmentSyncActions) {
		hmu.Lock()
		hooks = append(hooks, c08Hook{T: c.Tick(), Peer: p, Cid: cd})
		hmu.Unlock()
		if bp := byID[p]; bp != nil {
			if fn := bp.cancelAtHook.Swap(nil); fn != nil {
				(*fn)()
				c.Inc("explicit_syncs_cancelled_from_a_hook_call")
				time.Sleep(600 * time.Microsecond)
			}
		}
		if k.Timeouts {
			// the application's hook takes its time: the context of an explicit sync expires while the blocks of
			// that sync are still being reported, and the sync is over only when the last of them has been
			if b := cd.Bytes(); b[len(b)-1]%3 == 0 {
				time.Sleep(time.Duration(200+int(b[len(b)-2])*3) * time.Microsecond)
				c.Inc("slow_hook_calls_in_runs_with_expiring_contexts")
			}
		}
	}
	var pollerG atomic.Int64
	opts := []dagsync.Option{dagsync.RecvAnnounce(""), dagsync.BlockHook(hook)}
	if k.LastKnown {
		// a restarted indexer: the store already holds the chain, the latest sync comes from a callback
		// into the application (which takes its time)
		lkr := rand.New(rand.NewSource(r.Int63()))
		var lkmu sync.Mutex
		baseOf := map[peer.ID]cid.Cid{}
		for _, p := range pubs {
			raw, _ := p.st.Raw(p.chain.Cids[0])
			dst.PutRaw(p.chain.Cids[0], raw)
			baseOf[p.id.ID] = p.chain.Cids[0]
		}
		opts = append(opts, dagsync.WithLastKnownSync(func(pid peer.ID) (cid.Cid, bool) {
			lkmu.Lock()
			d := time.Duration(lkr.Intn(3000)) * time.Microsecond
			lkmu.Unlock()
			if int64(goroutineID()) == pollerG.Load() {
				d += 6 * time.Millisecond // the application's own question is answered slowly: syncs complete meanwhile
			}
			time.Sleep(d)
			if b, ok := baseOf[pid]; ok {
				return b, true
			}
			return cid.Undef, false
		}))
	}
	if k.MaxAsync > 0 {
		opts = append(opts, dagsync.MaxAsyncConcurrency(k.MaxAsync))
	}
	if k.IdleTTL > 0 {
		opts = append(opts, dagsync.IdleHandlerTTL(time.Duration(k.IdleTTL)*time.Microsecond))
	}
	s, err := newSubscriber(dst, opts...)
	if err != nil {
		c.Fail(sub, i, "harness-subscriber", err.Error(), nil)
		return
	}
	// at sync.enter note the latest-synced value that is current at that moment
	tl.onPoint = func(point string, p peer.ID, _ cid.Cid) cid.Cid {
		if point == "sync.enter" {
			return latestOf(s, p)
		}
		return cid.Undef
	}
	evs, cancelEvs := s.OnSyncFinished()
	var emu sync.Mutex
	var events []dagsync.SyncFinished
	entriesSyncs := 0
	var entriesBad []string
	evDone := make(chan struct{})
	go func() {
		defer close(evDone)
		for ev := range evs {
			emu.Lock()
			events = append(events, ev)
			emu.Unlock()
		}
	}()
	// baseline: the first advertisement of every chain is synced explicitly
	for _, p := range pubs {
		if k.LastKnown {
			continue
		}
		if _, err := s.SyncAdChain(context.Background(), p.front.AddrInfo()); err != nil {
			c.Fail(sub, i, "baseline-sync-failed", err.Error(), nil)
			cancelEvs()
			s.Close()
			return
		}
	}
	hmu.Lock()
	hooks = nil
	hmu.Unlock()
	for _, p := range pubs {
		p.front.ResetLog()
		p.failOn()
	}
	baseTick := c.Tick()

	var wg sync.WaitGroup
	announced := 0
	explicitThenAnnounce := 0
	explicitWithDeadline := 0
	var amu sync.Mutex
	for _, p := range pubs {
		wg.Add(1)
		rr := rand.New(rand.NewSource(r.Int63()))
		go func(p *c08Pub) {
			defer wg.Done()
			if k.LastKnown {
				// the publisher re-announces the head the indexer already has, then moves on
				h0 := p.chain.Cids[0]
				p.mu.Lock()
				p.ann = append(p.ann, h0)
				p.mu.Unlock()
				tl.mark("client.announce.call", p.id.ID, h0)
				if err := s.Announce(context.Background(), h0, p.front.AddrInfo()); err == nil {
					amu.Lock()
					announced++
					amu.Unlock()
				}
				tl.mark("client.announce.ret", p.id.ID, h0)
			}
			for b := 0; b < k.Bursts; b++ {
				for j := 1 + rr.Intn(6); j > 0; j-- {
					p.mu.Lock()
					if err := ExtendChain(rr, p.st, p.chain, 1+rr.Intn(2), p.id.ID); err != nil {
						p.mu.Unlock()
						return
					}
					h := p.chain.Head()
					p.front.Pub.SetRoot(h)
					p.ann = append(p.ann, h)
					p.mu.Unlock()
					if k.Explicit && rr.Intn(4) == 0 {
						// the head is synced explicitly first and announced afterwards (an indexer that
						// polls and also receives announcements does exactly this)
						tl.mark("client.explicit.call", p.id.ID, h)
						_, _ = s.SyncAdChain(context.Background(), p.front.AddrInfo())
						tl.mark("client.explicit.ret", p.id.ID, h)
						amu.Lock()
						explicitThenAnnounce++
						amu.Unlock()
					}
					tl.mark("client.announce.call", p.id.ID, h)
					err := s.Announce(context.Background(), h, p.front.AddrInfo())
					tl.mark("client.announce.ret", p.id.ID, h)
					if err == nil {
						amu.Lock()
						announced++
						amu.Unlock()
					}
					switch rr.Intn(4) {
					case 0:
					case 1:
						runtimeGosched()
					default:
						time.Sleep(time.Duration(rr.Intn(1500)) * time.Microsecond)
					}
				}
				time.Sleep(time.Duration(rr.Intn(4000)) * time.Microsecond)
			}
			if k.Fail > 0 && !k.Explicit {
				// the run ends with an announcement whose sync fails slowly and a newer announcement that arrives
				// during it: the newer one is the last announcement and must be acted on
				for step := 0; step < 2; step++ {
					p.mu.Lock()
					if err := ExtendChain(rr, p.st, p.chain, 1, p.id.ID); err != nil {
						p.mu.Unlock()
						return
					}
					h := p.chain.Head()
					p.front.Pub.SetRoot(h)
					p.ann = append(p.ann, h)
					if step == 0 {
						p.failSlow = h.String()
					}
					p.mu.Unlock()
					tl.mark("client.announce.call", p.id.ID, h)
					err := s.Announce(context.Background(), h, p.front.AddrInfo())
					tl.mark("client.announce.ret", p.id.ID, h)
					if err == nil {
						amu.Lock()
						announced++
						amu.Unlock()
					}
					if step == 0 {
						// (the newer announcement is made once the failing sync is under way)
						select {
						case <-p.slowArrived:
						case <-time.After(2 * time.Second):
						}
					}
				}
				c.Inc("runs_ending_with_a_newer_announcement_during_a_failing_sync")
			}
		}(p)
		if k.Explicit {
			wg.Add(1)
			rr2 := rand.New(rand.NewSource(r.Int63()))
			go func(p *c08Pub) {
				defer wg.Done()
				for e := 0; e < 2+rr2.Intn(3); e++ {
					time.Sleep(time.Duration(rr2.Intn(5000)) * time.Microsecond)
					ctx, stop := context.Background(), func() {}
					mode := 2
					if k.Timeouts {
						mode = rr2.Intn(3)
					}
					switch mode {
					case 0:
						ctx, stop = context.WithTimeout(context.Background(), time.Duration(50+rr2.Intn(3000))*time.Microsecond)
						amu.Lock()
						explicitWithDeadline++
						amu.Unlock()
					case 1:
						// the caller gives up while the blocks of a sync of this publisher are being reported (the
						// next hook call for the publisher cancels the context, and then takes its time)
						var cancel context.CancelFunc
						ctx, cancel = context.WithCancel(context.Background())
						stop = cancel
						p.cancelAtHook.Store(&cancel)
					}
					tl.mark("client.explicit.call", p.id.ID, cid.Undef)
					_, _ = s.SyncAdChain(ctx, p.front.AddrInfo())
					tl.mark("client.explicit.ret", p.id.ID, cid.Undef)
					stop()
					p.cancelAtHook.Store(nil)
				}
			}(p)
			// entries syncs of the same publisher (they share the per-publisher lock and hook slot with ad syncs);
			// their blocks go to a hook scoped to the call
			wg.Add(1)
			rr3 := rand.New(rand.NewSource(r.Int63()))
			go func(p *c08Pub) {
				defer wg.Done()
				for e := 0; e < 1+rr3.Intn(3); e++ {
					time.Sleep(time.Duration(rr3.Intn(4000)) * time.Microsecond)
					ech, err := NewEntryChain(rr3, p.st, 1+rr3.Intn(3), linkProto(multihash.SHA2_256, -1))
					if err != nil {
						return
					}
					var got []cid.Cid
					var gmu sync.Mutex
					eh := func(_ peer.ID, cd cid.Cid, act dagsync.SegmentSyncActions) {
						gmu.Lock()
						got = append(got, cd)
						gmu.Unlock()
					}
					tl.mark("client.entries.call", p.id.ID, ech.Head())
					err = s.SyncEntries(context.Background(), p.front.AddrInfo(), ech.Head(), dagsync.ScopedBlockHook(eh))
					tl.mark("client.entries.ret", p.id.ID, ech.Head())
					gmu.Lock()
					var want []string
					for x := len(ech.Cids) - 1; x >= 0; x-- {
						want = append(want, ech.Cids[x].String())
					}
					var gs []string
					for _, g := range got {
						gs = append(gs, g.String())
					}
					gmu.Unlock()
					emu.Lock()
					entriesSyncs++
					if err != nil {
						entriesBad = append(entriesBad, fmt.Sprintf("SyncEntries error: %v", err))
					} else if strings.Join(gs, ",") != strings.Join(want, ",") {
						entriesBad = append(entriesBad, fmt.Sprintf("entries sync of %d chunks reported %d blocks to its own hook: %v", len(want), len(gs), gs))
					}
					emu.Unlock()
				}
			}(p)
		}
	}
	stopRemove := make(chan struct{})
	var rmWG sync.WaitGroup
	if k.LastKnown {
		// the application asks for the latest sync of its publishers while they are being synced (each first
		// question goes to its own last-known callback, which takes its time)
		rmWG.Add(1)
		go func() {
			defer rmWG.Done()
			pollerG.Store(int64(goroutineID()))
			n := 0
			for {
				select {
				case <-stopRemove:
					c.Add("get_latest_sync_calls_during_syncs", int64(n))
					return
				default:
				}
				for _, p := range pubs {
					_ = s.GetLatestSync(p.id.ID)
					n++
				}
				time.Sleep(50 * time.Microsecond)
			}
		}()
	}
	if k.Remove {
		rmWG.Add(1)
		rr4 := rand.New(rand.NewSource(r.Int63()))
		go func() {
			defer rmWG.Done()
			n := 0
			for {
				select {
				case <-stopRemove:
					c.Add("remove_handler_calls", int64(n))
					return
				default:
				}
				s.RemoveHandler(pubs[rr4.Intn(len(pubs))].id.ID)
				n++
				time.Sleep(time.Duration(100+rr4.Intn(1500)) * time.Microsecond)
			}
		}()
	}
	earlyClosed := make(chan struct{})
	if k.EarlyClose {
		go func() {
			defer close(earlyClosed)
			time.Sleep(time.Duration(1500+r.Intn(6000)) * time.Microsecond)
			tl.mark("client.close.call", "", cid.Undef)
			s.Close()
			tl.mark("client.close.ret", "", cid.Undef)
		}()
	} else {
		close(earlyClosed)
	}
	wg.Wait()
	close(stopRemove)
	rmWG.Wait()
	if cv, cd := vf.Watch(120*time.Second, func() { <-earlyClosed }); cv != vf.Returned {
		c08Stuck.Add(1)
		c.Fail(sub, i, "close-in-mid-run-did-not-return:"+vf.LibFrame(cd), cd, nil)
		return
	}
	// ---- logical quiescence: every accepted announcement was received by the watcher, every handling
	// goroutine that was started has exited, no request is open anywhere. (The deadline only classifies.)
	quiet := k.EarlyClose // (Close has returned: every handling goroutine has ended)
	// (the condition is evaluated on one snapshot of the counters and must hold on two snapshots a moment apart with
	// nothing logged in between; the deadline runs from the last progress seen, so a slow machine is not "stuck")
	isQuiet := func() (bool, int) {
		amu.Lock()
		a := announced
		amu.Unlock()
		open := int64(0)
		for _, p := range pubs {
			open += p.front.OpenRequests()
		}
		n, total := tl.snapshot()
		// (every received announcement must also have been put into the pending slot: the watcher may be anywhere
		// between receiving and swapping; every notification sent has been taken up by the distributor, so the
		// harness's own listener, cancelled below, has them all queued)
		return n["watch.recv"] == a && n["watch.swap.spawn"]+n["watch.swap.replaced"] == a &&
			n["async.enter"] == n["async.exit"] && n["watch.swap.spawn"] == n["async.enter"] && open == 0 &&
			n["event.emit.begin"] == n["event.emit.end"] && n["dist.forward"] == n["event.emit.end"], total
	}
	lastTotal, lastProgress := -1, time.Now()
	for !quiet && time.Since(lastProgress) < 90*time.Second {
		ok, total := isQuiet()
		if total != lastTotal {
			lastTotal, lastProgress = total, time.Now()
		}
		if ok {
			time.Sleep(time.Millisecond)
			if ok2, total2 := isQuiet(); ok2 && total2 == total {
				quiet = true
				break
			}
			continue
		}
		time.Sleep(500 * time.Microsecond)
	}
	finalLatest := map[peer.ID]cid.Cid{}
	for _, p := range pubs {
		finalLatest[p.id.ID] = latestOf(s, p.id.ID)
	}
	cancelEvs()
	s.Close()
	<-evDone
	log := tl.events()
	sort.Slice(log, func(a, b int) bool { return log[a].T < log[b].T })
	hmu.Lock()
	hk := append([]c08Hook(nil), hooks...)
	hmu.Unlock()

	wit := func() any {
		var lines []string
		for _, e := range log {
			if e.T < baseTick {
				continue
			}
			pn := "-"
			if p := byID[e.Peer]; p != nil {
				for x, q := range pubs {
					if q == p {
						pn = fmt.Sprint("P", x)
					}
				}
			}
			pos := ""
			if p := byID[e.Peer]; p != nil && e.Cid.Defined() {
				pos = fmt.Sprint("#", p.chain.Pos(e.Cid))
			}
			lines = append(lines, fmt.Sprintf("%d g%d %s %s %s", e.T, e.G, e.Point, pn, pos))
		}
		if len(lines) > 400 {
			lines = append(lines[:200], append([]string{"…"}, lines[len(lines)-200:]...)...)
		}
		return map[string]any{"config": k.String(), "event_log": lines}
	}
	if !quiet {
		c08Stuck.Add(1)
		c.Fail(sub, i, "no-quiescence", fmt.Sprintf("announced=%d watch.recv=%d spawned=%d async.enter=%d async.exit=%d", announced, tl.count("watch.recv"), tl.count("watch.swap.spawn"), tl.count("async.enter"), tl.count("async.exit")), wit())
		return
	}
	// ---- offline checks over the log ----------------------------------------------------------------------
	type interval struct {
		peer       peer.ID
		enter, end int64
		g          int
		stopRead   cid.Cid
		latestAt   cid.Cid
		stale      bool
		staleHead  bool // the head being synced is older than the latest-synced advertisement at entry
		head       cid.Cid
		hooks      []int
	}
	var syncs []*interval
	open := map[peer.ID]*interval{}
	stopByG := map[int]cid.Cid{}
	semOpen, semMax := 0, 0
	inSem := map[int]bool{}
	inAsync := map[int]bool{}      // goroutines that are announce handlers
	asyncSyncs, asyncSyncsMax := 0, 0 // announce-triggered syncs between sync.enter and sync.exit
	asyncSyncG := map[int]bool{}
	coalesced, spawnWhileRunning := 0, 0
	running := map[peer.ID]int{}
	for _, e := range log {
		if e.T < baseTick {
			continue
		}
		switch e.Point {
		case "stop.read":
			stopByG[e.G] = e.Cid
		case "sync.enter":
			if open[e.Peer] != nil {
				c.Fail(sub, i, "two-syncs-of-one-publisher-overlap", fmt.Sprintf("sync.enter at %d while the sync entered at %d has not exited", e.T, open[e.Peer].enter), wit())
				return
			}
			iv := &interval{peer: e.Peer, enter: e.T, g: e.G, stopRead: stopByG[e.G], latestAt: e.Aux, head: e.Cid}
			if inAsync[e.G] {
				asyncSyncG[e.G] = true
				asyncSyncs++
				if asyncSyncs > asyncSyncsMax {
					asyncSyncsMax = asyncSyncs
				}
			}
			iv.stale = !iv.stopRead.Equals(iv.latestAt)
			if p := byID[e.Peer]; p != nil && e.Aux.Defined() && p.chain.Pos(e.Cid) >= 0 && p.chain.Pos(e.Cid) < p.chain.Pos(e.Aux) {
				iv.staleHead = true
			}
			open[e.Peer] = iv
			syncs = append(syncs, iv)
		case "sync.exit":
			if iv := open[e.Peer]; iv != nil {
				iv.end = e.T
				open[e.Peer] = nil
			}
			if asyncSyncG[e.G] {
				delete(asyncSyncG, e.G)
				asyncSyncs--
			}
		case "pending.taken":
			// the pending announcement is taken only when no other sync of the publisher is running: one that is
			// taken earlier is no longer replaced by a newer announcement arriving during that sync
			if iv := open[e.Peer]; iv != nil {
				c.Fail(sub, i, "pending-announcement-taken-while-a-sync-of-the-publisher-is-running", fmt.Sprintf("taken at %d, the sync entered at %d has not exited", e.T, iv.enter), wit())
				return
			}
		case "async.sem":
			semOpen++
			inSem[e.G] = true
			if semOpen > semMax {
				semMax = semOpen
			}
		case "async.exit":
			if inSem[e.G] {
				semOpen--
				delete(inSem, e.G)
			}
			running[e.Peer]--
			delete(inAsync, e.G)
		case "async.enter":
			running[e.Peer]++
			inAsync[e.G] = true
		case "watch.swap.replaced":
			coalesced++
		case "watch.swap.spawn":
			if running[e.Peer] > 0 {
				spawnWhileRunning++
			}
		}
	}
	emu.Lock()
	if len(entriesBad) > 0 && !k.EarlyClose {
		c.Fail(sub, i, "entries-sync-hook-calls-differ", entriesBad[0], wit())
	}
	c.Add("entries_syncs_of_the_same_publishers", int64(entriesSyncs))
	emu.Unlock()
	if k.EarlyClose {
		// (a goroutine released from its wait for a slot by the shutdown passes the slot tap without one and gives
		// up at once: the bound that matters here is on syncs actually running)
		semMax = 0
	}
	if k.MaxAsync > 0 && semMax > k.MaxAsync {
		c.Fail(sub, i, "more-announce-syncs-than-configured-maximum", fmt.Sprintf("%d at once, maximum %d", semMax, k.MaxAsync), wit())
	}
	if k.MaxAsync > 0 && asyncSyncsMax > k.MaxAsync {
		c.Fail(sub, i, "more-announce-syncs-running-than-configured-maximum", fmt.Sprintf("%d announce-triggered syncs were between start and end at once, maximum %d", asyncSyncsMax, k.MaxAsync), wit())
	}
	if k.EarlyClose {
		// (what was announced when Close began is not acted on any more: the rules about completeness do not apply)
		c.Eval(1)
		c.Inc("runs_closed_while_announcements_and_explicit_syncs_were_coming_in")
		return
	}
	// hooks belong to exactly one sync interval of their publisher
	for _, h := range hk {
		var owner *interval
		for _, iv := range syncs {
			if iv.peer == h.Peer && h.T > iv.enter && (iv.end == 0 || h.T < iv.end) {
				owner = iv
			}
		}
		p := byID[h.Peer]
		if owner == nil || p == nil {
			c.Fail(sub, i, "hook-call-outside-any-sync-of-its-publisher", fmt.Sprintf("hook at %d for %s", h.T, h.Cid), wit())
			return
		}
		owner.hooks = append(owner.hooks, p.chain.Pos(h.Cid))
	}
	// exactly once, newest to oldest within a sync
	for x, p := range pubs {
		seen := map[int]int{}
		var perSync []string
		staleInvolved := false
		staleHead := false
		for _, iv := range syncs {
			if iv.peer == p.id.ID && iv.staleHead {
				staleHead = true
			}
		}
		suffix := ""
		if staleHead {
			// an announcement of an OLDER head was handled after a newer head had been synced explicitly
			suffix = ":announced-head-older-than-latest-synced"
			c.Inc("runs_with_stale_announced_head")
		}
		for _, iv := range syncs {
			if iv.peer != p.id.ID {
				continue
			}
			perSync = append(perSync, fmt.Sprint(iv.hooks))
			for y := 1; y < len(iv.hooks); y++ {
				if iv.hooks[y] != iv.hooks[y-1]-1 {
					c.Fail(sub, i, "hooks-of-a-sync-not-in-chain-order", fmt.Sprintf("publisher P%d: %v", x, iv.hooks), wit())
					return
				}
			}
			for _, h := range iv.hooks {
				seen[h]++
				if seen[h] > 1 && iv.stale {
					staleInvolved = true
				}
			}
		}
		last := len(p.chain.Cids) - 1
		if k.Fail > 0 {
			// failed syncs report nothing; what must have been reported once is everything up to latest-synced
			// (whether the remainder is excused by an error notification is decided below)
			if lp := p.chain.Pos(finalLatest[p.id.ID]); lp >= 0 {
				for pos := lp + 1; pos <= last; pos++ {
					if seen[pos] > 0 {
						c.Fail(sub, i, "advertisement-beyond-latest-synced-reported", fmt.Sprintf("publisher P%d advertisement #%d reported, latest-synced is #%d", x, pos, lp), wit())
					}
				}
				last = lp
			}
		}
		if k.LastKnown {
			// the advertisement the application named as last known, and everything older, is neither reported nor requested
			if seen[0] > 0 {
				c.Fail(sub, i, "last-known-advertisement-reported-again", fmt.Sprintf("publisher P%d advertisement #0 (the last known sync) reported %d time(s); hooks per sync: %s", x, seen[0], strings.Join(perSync, " ")), wit())
			}
			for _, q := range BlockRequests(p.front.Log()) {
				if q == p.chain.Cids[0].String() {
					c.Fail(sub, i, "last-known-advertisement-requested", fmt.Sprintf("publisher P%d: the block of the last known sync was requested from the publisher", x), wit())
					break
				}
			}
		}
		for pos := 1; pos <= last; pos++ {
			if seen[pos] == 1 {
				continue
			}
			if seen[pos] > 1 {
				key := "advertisement-reported-more-than-once"
				if k.Explicit && staleInvolved {
					key = "advertisement-reported-more-than-once:stale-stop-overlap"
				}
				key += suffix
				c.Fail(sub, i, key, fmt.Sprintf("publisher P%d advertisement #%d reported %d times; hooks per sync: %s", x, pos, seen[pos], strings.Join(perSync, " ")), wit())
				break
			}
			// not reported: admissible only if an error notification was delivered and the head was not reached
			c.Fail(sub, i, "advertisement-never-reported", fmt.Sprintf("publisher P%d advertisement #%d; hooks per sync: %s", x, pos, strings.Join(perSync, " ")), wit())
			break
		}
		// duplicate requests at the publisher (fault-free run: only a second, concurrent sync can cause them)
		reqSeen := map[string]int{}
		for _, q := range BlockRequests(p.front.Log()) {
			if q == "head" || k.Timeouts || k.Fail > 0 {
				continue // (a request abandoned by an expired context, or refused, is legitimately repeated later)
			}
			reqSeen[q]++
			if reqSeen[q] > 1 {
				key := "block-requested-twice"
				if k.Explicit {
					key = "block-requested-twice:stale-stop-overlap"
				}
				key += suffix
				cd, _ := cid.Decode(q)
				c.Fail(sub, i, key, fmt.Sprintf("publisher P%d advertisement #%d", x, p.chain.Pos(cd)), wit())
				break
			}
		}
		// the latest announcement is never lost
		p.mu.Lock()
		lastAnn := p.ann[len(p.ann)-1]
		p.mu.Unlock()
		if !finalLatest[p.id.ID].Equals(lastAnn) {
			errSeen := false
			emu.Lock()
			for _, ev := range events {
				// (the error notification of an announcement's sync names the announced head)
				if ev.PeerID == p.id.ID && ev.Err != nil && ev.Cid.Equals(lastAnn) {
					errSeen = true
				}
			}
			emu.Unlock()
			if !errSeen {
				c.Fail(sub, i, "last-announcement-lost"+suffix, fmt.Sprintf("publisher P%d: latest-synced is #%d, last announced head is #%d, activity has ceased and no error notification was delivered",
					x, p.chain.Pos(finalLatest[p.id.ID]), p.chain.Pos(lastAnn)), wit())
			}
		}
	}
	c.Eval(1)
	c.Add("announcements", int64(announced))
	c.Add("head_synced_explicitly_then_announced", int64(explicitThenAnnounce))
	c.Add("explicit_syncs_with_expiring_context", int64(explicitWithDeadline))
	if k.LastKnown {
		c.Inc("runs_with_last_known_baseline")
	}
	if k.IdleTTL > 0 {
		c.Inc("runs_with_idle_handler_ttl_shorter_than_a_sync")
	}
	if k.Remove {
		c.Inc("runs_with_remove_handler_calls")
	}
	if k.Fail > 0 {
		c.Inc("runs_with_failing_syncs")
		nerr := 0
		emu.Lock()
		for _, ev := range events {
			if ev.Err != nil {
				nerr++
			}
		}
		emu.Unlock()
		c.Add("failed_announce_syncs", int64(nerr))
	}
	c.Max("max_announce_syncs_between_start_and_end", int64(asyncSyncsMax))
	c.Add("coalesced_announcements", int64(coalesced))
	c.Add("spawn_while_previous_sync_running", int64(spawnWhileRunning))
	c.Add("syncs_observed", int64(len(syncs)))
	c.Max("max_concurrent_announce_syncs", int64(semMax))
	if k.MaxAsync > 0 && semMax == k.MaxAsync {
		c.Inc("runs_reaching_the_concurrency_limit")
	}
	var sig []string
	for _, e := range log {
		if e.T >= baseTick && (strings.HasPrefix(e.Point, "watch.swap") || e.Point == "sync.enter" || e.Point == "sync.exit" || e.Point == "pending.taken") {
			sig = append(sig, e.Point[len(e.Point)-4:]+short(e.Peer)[:2])
		}
	}
	c.DistinctIn("interleavings", strings.Join(sig, ""))
	c.Distinct(sub, k.String(), fmt.Sprint(coalesced > 0, spawnWhileRunning > 0))
	if c.WantSample(sub) && coalesced > 0 && len(log) < 400 {
		c.Sample(sub, wit())
	}
}

var _ = cidlink.Link{}
