package props

import (
	"bytes"
	"context"
	"encoding/hex"
	"encoding/json"
	"fmt"
	"math/rand"
	"net/http"
	"sync/atomic"
	"strings"

	"github.com/ipni/go-libipni/find/model"
	"github.com/ipni/go-libipni/pcache"
	"github.com/libp2p/go-libp2p/core/peer"
	"github.com/multiformats/go-multiaddr"

	"verif/harness/vf"
)

func init() { Registry["C17"] = runC17 }

// staticSource is a ProviderSource over a fixed list.
type staticSource struct{ infos []*model.ProviderInfo }

func (s *staticSource) Fetch(_ context.Context, pid peer.ID) (*model.ProviderInfo, error) {
	for _, in := range s.infos {
		if in != nil && in.AddrInfo.ID == pid {
			return in, nil
		}
	}
	return nil, nil
}
func (s *staticSource) FetchAll(context.Context) ([]*model.ProviderInfo, error) { return s.infos, nil }
func (s *staticSource) String() string                                         { return "static" }

type specResult struct {
	id   peer.ID
	addr string
	ctx  []byte
	md   []byte
}

func (r specResult) String() string {
	return fmt.Sprintf("%s@%s ctx=%x md=%x", r.id, r.addr, r.ctx, r.md)
}

func addrKey(a []multiaddr.Multiaddr) string { return strings.Join(maStrings(a), ",") }

// c17Spec is the independent statement of the IPNI expansion rules.
func c17Spec(info *model.ProviderInfo, ctxID, md []byte) []specResult {
	pid := info.AddrInfo.ID
	out := []specResult{{pid, addrKey(info.AddrInfo.Addrs), ctxID, md}}
	xp := info.ExtendedProviders
	if xp == nil {
		return out
	}
	expand := func(provs []peer.AddrInfo, mds [][]byte) {
		for i, p := range provs {
			var own []byte // absent when the slot is missing
			if i < len(mds) {
				own = mds[i]
			}
			if p.ID == pid && (len(own) == 0 || bytes.Equal(own, md)) {
				continue // the provider's own entry adds nothing new
			}
			use := own
			if len(own) == 0 {
				use = md
			}
			out = append(out, specResult{p.ID, addrKey(p.Addrs), ctxID, use})
		}
	}
	override := false
	// several sets with the same context id: the one that is indexed last wins
	var cx *model.ContextualExtendedProviders
	for k := range xp.Contextual {
		if xp.Contextual[k].ContextID == string(ctxID) {
			cx = &xp.Contextual[k]
		}
	}
	if cx != nil {
		override = cx.Override
		expand(cx.Providers, cx.Metadatas)
	}
	if override {
		return out
	}
	expand(xp.Providers, xp.Metadatas)
	return out
}

func c17GenMd(r *rand.Rand, lookedUp []byte) ([]byte, string) {
	switch r.Intn(5) {
	case 0:
		return nil, "nil"
	case 1:
		return []byte{}, "empty"
	case 2:
		return append([]byte(nil), lookedUp...), "equal"
	default:
		return rbytes(r, 1+r.Intn(6)), "different"
	}
}

func c17GenSet(r *rand.Rand, n int, main peer.AddrInfo, others []peer.AddrInfo, lookedUp []byte, shape *[]string) ([]peer.AddrInfo, [][]byte) {
	var provs []peer.AddrInfo
	var mds [][]byte
	mainAt := -1
	if r.Intn(2) == 0 && n > 0 {
		mainAt = r.Intn(n)
	}
	// (a provider may list itself more than once in one set)
	mainAgain := -1
	if mainAt >= 0 && n > 1 && r.Intn(4) == 0 {
		mainAgain = r.Intn(n)
	}
	for i := 0; i < n; i++ {
		if i == mainAt || i == mainAgain {
			provs = append(provs, main)
			*shape = append(*shape, "main")
		} else {
			provs = append(provs, others[r.Intn(len(others))])
		}
		md, k := c17GenMd(r, lookedUp)
		mds = append(mds, md)
		*shape = append(*shape, k)
	}
	// list-length mismatches
	switch r.Intn(8) {
	case 0:
		if len(mds) > 0 {
			mds = mds[:r.Intn(len(mds))]
			*shape = append(*shape, "md-shorter")
		}
	case 1:
		mds = append(mds, rbytes(r, 2))
		*shape = append(*shape, "md-longer")
	case 2:
		mds = nil
		*shape = append(*shape, "md-nil")
	}
	return provs, mds
}

func runC17(c *vf.Ctx) {
	const sub = "expand"
	if !c.Active(sub) {
		return
	}
	n := c.N(150000, 10000000)
	// a pool of provider identities with addresses
	pool := make([]peer.AddrInfo, 6)
	for k := range pool {
		id := EdIdent(rand.New(rand.NewSource(int64(1000 + k))))
		a, _ := multiaddr.NewMultiaddr(fmt.Sprintf("/ip4/8.8.8.%d/tcp/%d", k+1, 4000+k))
		pool[k] = peer.AddrInfo{ID: id.ID, Addrs: []multiaddr.Multiaddr{a}}
	}
	// one server per shard serves the record of the case being run
	var curAll, curOne atomic.Pointer[[]byte]
	srv := newMemServer(http.HandlerFunc(func(w http.ResponseWriter, req *http.Request) {
		if strings.HasSuffix(req.URL.Path, "/providers") {
			w.Write(*curAll.Load())
		} else {
			w.Write(*curOne.Load())
		}
	}))
	defer srv.Close()
	for i := 0; i < n; i++ {
		if !c.Mine(sub, i) {
			continue
		}
		r := c.Rand(sub, i)
		main := pool[0]
		others := pool[1:]
		lookedUp, _ := c17GenMd(r, []byte("lookedup"))
		if r.Intn(4) != 0 && len(lookedUp) == 0 {
			lookedUp = rbytes(r, 1+r.Intn(8))
		}
		ctxID := rbytes(r, r.Intn(5))
		var shape []string
		info := &model.ProviderInfo{AddrInfo: main, LastAdvertisementTime: "2024-01-02T03:04:05Z"}
		if r.Intn(8) != 0 {
			xp := &model.ExtendedProviders{}
			shape = append(shape, "chain:")
			xp.Providers, xp.Metadatas = c17GenSet(r, r.Intn(5), main, others, lookedUp, &shape)
			nctx := r.Intn(4)
			usedCtx := map[string]bool{}
			for k := 0; k < nctx; k++ {
				var cid []byte
				if k == 0 && r.Intn(3) != 0 {
					cid = ctxID // the looked-up context
				} else {
					cid = rbytes(r, 1+r.Intn(4))
				}
				if usedCtx[string(cid)] {
					continue
				}
				usedCtx[string(cid)] = true
				cx := model.ContextualExtendedProviders{ContextID: string(cid), Override: r.Intn(2) == 0}
				shape = append(shape, fmt.Sprintf("ctx(match=%v,override=%v):", bytes.Equal(cid, ctxID), cx.Override))
				cx.Providers, cx.Metadatas = c17GenSet(r, r.Intn(4), main, others, lookedUp, &shape)
				xp.Contextual = append(xp.Contextual, cx)
			}
			info.ExtendedProviders = xp
		}
		viaJSON := r.Intn(5) == 0
		wit := func() any {
			b, _ := json.Marshal(info)
			return map[string]any{"provider_info_json": string(b), "context_id_hex": hex.EncodeToString(ctxID), "metadata_hex": hex.EncodeToString(lookedUp), "metadata_nil": lookedUp == nil, "via_http_json": viaJSON}
		}
		c.Cur(sub, i, strings.Join(shape, " "))

		// a source may also deliver a list with an empty slot (JSON null) next to the record
		list := []*model.ProviderInfo{info}
		if r.Intn(25) == 0 {
			if r.Intn(2) == 0 {
				list = []*model.ProviderInfo{nil, info}
			} else {
				list = []*model.ProviderInfo{info, nil}
			}
			c.Inc("source_lists_with_a_null_entry")
		}
		var src pcache.ProviderSource = &staticSource{infos: list}
		specInfo := info
		if viaJSON {
			body, _ := json.Marshal(list)
			one, _ := json.Marshal(info)
			curAll.Store(&body)
			curOne.Store(&one)
			var err error
			src, err = pcache.NewHTTPSource(srv.URL, nil)
			if err != nil {
				c.Fail(sub, i, "harness-http-source", err.Error(), nil)
				continue
			}
			// the specification is applied to the record as the source delivers it
			var rt []*model.ProviderInfo
			if err := json.Unmarshal(body, &rt); err != nil {
				c.Fail(sub, i, "harness-json", err.Error(), nil)
				continue
			}
			for _, x := range rt {
				if x != nil {
					specInfo = x
				}
			}
			c.Inc("via_http_json")
		}
		c.Guard(sub, i, wit, func() {
			pc, err := pcache.New(pcache.WithSource(src), pcache.WithRefreshInterval(0), pcache.WithPreload(r.Intn(2) == 0))
			if err != nil {
				c.Fail(sub, i, "pcache-new", err.Error(), wit())
				return
			}
			got, err := pc.GetResults(context.Background(), main.ID, ctxID, lookedUp)
			if err != nil {
				c.Inc("returned_error")
				return // an error is an admissible outcome
			}
			want := c17Spec(specInfo, ctxID, lookedUp)
			var gs, ws []string
			for _, g := range got {
				if g.Provider == nil {
					gs = append(gs, "<nil provider>")
					continue
				}
				gs = append(gs, specResult{g.Provider.ID, addrKey(g.Provider.Addrs), g.ContextID, g.Metadata}.String())
			}
			for _, w := range want {
				ws = append(ws, w.String())
			}
			if strings.Join(gs, "\n") != strings.Join(ws, "\n") {
				key := "expansion-differs"
				if len(gs) == len(ws) {
					key = "expansion-differs:metadata-or-identity"
				} else {
					key = "expansion-differs:length"
				}
				c.Fail(sub, i, key, fmt.Sprintf("shape: %s\n got:\n  %s\nwant:\n  %s", strings.Join(shape, " "), strings.Join(gs, "\n  "), strings.Join(ws, "\n  ")), wit())
			}
			if len(want) > 1 {
				c.Inc("expanded_results")
			}
			// the same cached record expanded again for other looked-up metadata and another context, then once
			// more for the first ones: each expansion depends on its own arguments only
			if r.Intn(3) == 0 {
				md2 := rbytes(r, 1+r.Intn(8))
				ctx2 := ctxID
				if r.Intn(2) == 0 && info.ExtendedProviders != nil && len(info.ExtendedProviders.Contextual) > 0 {
					ctx2 = []byte(info.ExtendedProviders.Contextual[r.Intn(len(info.ExtendedProviders.Contextual))].ContextID)
				}
				for round, q := range []struct{ ctx, md []byte }{{ctx2, md2}, {ctxID, lookedUp}} {
					gotN, err := pc.GetResults(context.Background(), main.ID, q.ctx, q.md)
					if err != nil {
						return
					}
					wantN := c17Spec(specInfo, q.ctx, q.md)
					var gn, wn []string
					for _, g := range gotN {
						if g.Provider == nil {
							gn = append(gn, "<nil provider>")
							continue
						}
						gn = append(gn, specResult{g.Provider.ID, addrKey(g.Provider.Addrs), g.ContextID, g.Metadata}.String())
					}
					for _, w := range wantN {
						wn = append(wn, w.String())
					}
					if strings.Join(gn, "\n") != strings.Join(wn, "\n") {
						c.Fail(sub, i, "expansion-differs-on-a-later-lookup-of-the-same-record", fmt.Sprintf("lookup %d (context %x, metadata %x) after an earlier lookup with other arguments:\n got:\n  %s\nwant:\n  %s", round+2, q.ctx, q.md, strings.Join(gn, "\n  "), strings.Join(wn, "\n  ")), wit())
						return
					}
				}
				c.Inc("repeated_lookups_with_other_arguments")
			}
			// a newer record for the same provider changes extended providers IN PLACE (same context ids and
			// peers; override flags, metadata, addresses differ): after a refresh the expansion follows it
			if ss, isStatic := src.(*staticSource); isStatic && info.ExtendedProviders != nil && r.Intn(2) == 0 {
				nb, _ := json.Marshal(info)
				var newer model.ProviderInfo
				if json.Unmarshal(nb, &newer) != nil || newer.ExtendedProviders == nil {
					return
				}
				newer.LastAdvertisementTime = "2025-06-07T08:09:10Z"
				xp := newer.ExtendedProviders
				for k := range xp.Contextual {
					if r.Intn(2) == 0 {
						xp.Contextual[k].Override = !xp.Contextual[k].Override
					}
					for m := range xp.Contextual[k].Metadatas {
						if r.Intn(2) == 0 {
							xp.Contextual[k].Metadatas[m] = rbytes(r, 1+r.Intn(5))
						}
					}
				}
				for m := range xp.Metadatas {
					if r.Intn(2) == 0 {
						xp.Metadatas[m] = rbytes(r, 1+r.Intn(5))
					}
				}
				ss.infos = []*model.ProviderInfo{&newer}
				if err := pc.Refresh(context.Background()); err != nil {
					c.Fail(sub, i, "refresh-error", err.Error(), wit())
					return
				}
				got2, err := pc.GetResults(context.Background(), main.ID, ctxID, lookedUp)
				if err != nil {
					return
				}
				want2 := c17Spec(&newer, ctxID, lookedUp)
				var g2, w2 []string
				for _, g := range got2 {
					if g.Provider == nil {
						g2 = append(g2, "<nil provider>")
						continue
					}
					g2 = append(g2, specResult{g.Provider.ID, addrKey(g.Provider.Addrs), g.ContextID, g.Metadata}.String())
				}
				for _, w := range want2 {
					w2 = append(w2, w.String())
				}
				if strings.Join(g2, "\n") != strings.Join(w2, "\n") {
					nj, _ := json.Marshal(&newer)
					c.Fail(sub, i, "expansion-differs-after-record-update", fmt.Sprintf("after the source delivered a newer record and a refresh:\n got:\n  %s\nwant:\n  %s\nnewer record: %s", strings.Join(g2, "\n  "), strings.Join(w2, "\n  "), nj), wit())
				}
				c.Inc("updated_in_place_then_refreshed")
			}
		})
		c.Eval(1)
		if info.ExtendedProviders != nil {
			c.Distinct(sub, strings.Join(shape, " "))
		}
		for _, s := range []string{"md-shorter", "md-longer", "md-nil", "main", "empty", "nil"} {
			for _, sh := range shape {
				if sh == s {
					c.Inc("shape_" + s)
					break
				}
			}
		}
		if c.WantSample(sub) && len(shape) > 6 {
			c.Sample(sub, wit())
		}
	}
}
