package props

import (
	"context"
	"errors"
	"fmt"
	"strings"
	"sync"
	"sync/atomic"
	"time"

	"github.com/ipni/go-libipni/announce"
	"github.com/ipni/go-libipni/announce/gossiptopic"
	"github.com/ipni/go-libipni/announce/message"
	"github.com/ipni/go-libipni/announce/p2psender"
	pubsub "github.com/libp2p/go-libp2p-pubsub"
	"github.com/libp2p/go-libp2p/core/host"
	"github.com/libp2p/go-libp2p/core/peer"
	"github.com/multiformats/go-multiaddr"

	"verif/harness/vf"
)

func init() { Registry["C16"] = runC16 }

const c16Watchdog = 20 * time.Second

// c16Call runs one receiver call under the hang rule. For calls that may
// legitimately wait (Direct with a full buffer, Next with nothing to read) the
// context is cancelled after a short grace; the call must then return.
type c16Result struct {
	op        string
	err       error
	verdict   vf.Verdict
	dump      string
	cancelled bool
	gotMsg    bool
}

func c16Do(rc *announce.Receiver, op string, k int) c16Result {
	res := c16Result{op: op}
	pid := Keys()["ed25519"][0].ID
	switch op {
	case "Close":
		res.verdict, res.dump = vf.Watch(c16Watchdog, func() { res.err = rc.Close() })
	case "Uncache":
		res.verdict, res.dump = vf.Watch(c16Watchdog, func() { rc.UncacheCid(c09Cid(k % 3)) })
	case "Direct", "Next":
		ctx, cancel := context.WithCancel(context.Background())
		done := make(chan struct{})
		var cancelledFlag bool
		var mu sync.Mutex
		go func() {
			select {
			case <-done:
			case <-time.After(40 * time.Millisecond):
				mu.Lock()
				cancelledFlag = true
				mu.Unlock()
				cancel()
			}
		}()
		res.verdict, res.dump = vf.Watch(c16Watchdog, func() {
			if op == "Direct" {
				res.err = rc.Direct(ctx, c09Cid(1000+k), peer.AddrInfo{ID: pid, Addrs: []multiaddr.Multiaddr{c09Marker(k)}})
			} else {
				_, res.err = rc.Next(ctx)
				res.gotMsg = res.err == nil
			}
		})
		close(done)
		cancel()
		mu.Lock()
		res.cancelled = cancelledFlag
		mu.Unlock()
	}
	return res
}

var c16Alphabet = []string{"Close", "Direct", "Next", "Uncache"}

var c16Hangs atomic.Int64

// c16TooManyHangs: every hang costs the full watchdog; after a few the verdict
// is settled and the rest of the shard is skipped.
func c16TooManyHangs() bool { return c16Hangs.Load() >= 3 }

func c16CheckResult(c *vf.Ctx, sub string, i int, seq []string, pos int, res c16Result, closedBefore bool, wit func() any) bool {
	if res.verdict != vf.Returned {
		c16Hangs.Add(1)
	}
	if res.verdict == vf.Hung {
		c.Fail(sub, i, "hang:"+res.op+":"+vf.LibFrame(res.dump), fmt.Sprintf("%s (call %d of %v) is blocked inside the library and makes no progress\n%s", res.op, pos, seq, res.dump), wit())
		return false
	}
	if res.verdict == vf.Inconclusive {
		c.Inconclusive(sub, i, "call-did-not-return:"+res.op, res.dump, wit())
		return false
	}
	switch res.op {
	case "Close":
		if res.err != nil {
			c.Fail(sub, i, "close-returned-error", res.err.Error(), wit())
		}
	case "Direct":
		if closedBefore {
			if !errors.Is(res.err, announce.ErrClosed) {
				c.Fail(sub, i, "direct-after-close-not-closed-error", fmt.Sprint(res.err), wit())
			}
		} else if res.err != nil && !errors.Is(res.err, context.Canceled) && !errors.Is(res.err, announce.ErrClosed) {
			c.Fail(sub, i, "direct-unexpected-error", res.err.Error(), wit())
		}
	case "Next":
		if closedBefore {
			// a buffered announcement may still be handed out; otherwise the closed error
			if res.err != nil && !errors.Is(res.err, announce.ErrClosed) && !(res.cancelled && errors.Is(res.err, context.Canceled)) {
				c.Fail(sub, i, "next-after-close-unexpected-error", res.err.Error(), wit())
			}
			if res.cancelled {
				c.Fail(sub, i, "next-after-close-waited", "Next on a closed receiver did not return until its context was cancelled", wit())
			}
		} else if res.err != nil && !errors.Is(res.err, context.Canceled) && !errors.Is(res.err, announce.ErrClosed) {
			c.Fail(sub, i, "next-unexpected-error", res.err.Error(), wit())
		}
	}
	return true
}

func runC16(c *vf.Ctx) {
	c16Sequential(c)
	c16Concurrent(c)
	c16HostNoTopic(c)
	c16UncacheStress(c)
	c16Blocked(c)
	c16Resend(c)
	c16Callback(c)
	c16Pubsub(c)
}

// a Direct call is inside the application's allow callback (which takes its time) when the other calls are made:
// none of them may wait for the callback
func c16Callback(c *vf.Ctx) {
	const sub = "calls-while-allow-callback-runs"
	if !c.Active(sub) {
		return
	}
	n := c.N(24, 600)
	pid := Keys()["ed25519"][0].ID
	for i := 0; i < n; i++ {
		if !c.Mine(sub, i) || c16TooManyHangs() {
			continue
		}
		r := c.Rand(sub, i)
		order := [][]string{{"Uncache", "Next", "Close"}, {"Close", "Uncache", "Next"}, {"Direct", "Close", "Next"}, {"Uncache", "Direct", "Close"}}[r.Intn(4)]
		desc := fmt.Sprintf("a Direct call is inside the allow callback; then %v", order)
		c.Cur(sub, i, desc)
		wit := func() any { return map[string]any{"scenario": desc} }
		gate := make(chan struct{})
		entered := make(chan struct{}, 1)
		var park atomic.Bool
		park.Store(true)
		allow := func(peer.ID) bool {
			if park.CompareAndSwap(true, false) {
				entered <- struct{}{}
				<-gate
			}
			return true
		}
		rc, err := announce.NewReceiver(nil, "", announce.WithAllowPeer(allow))
		if err != nil {
			c.Fail(sub, i, "receiver-create-error", err.Error(), wit())
			continue
		}
		parked := make(chan error, 1)
		go func() {
			parked <- rc.Direct(context.Background(), c09Cid(6000), peer.AddrInfo{ID: pid, Addrs: []multiaddr.Multiaddr{c09Marker(1)}})
		}()
		select {
		case <-entered:
		case <-time.After(20 * time.Second):
			c.Inconclusive(sub, i, "callback-not-reached", "", nil)
			close(gate)
			continue
		}
		closed := false
		ok := true
		for k, op := range order {
			res := c16Do(rc, op, 300+k)
			if res.verdict == vf.Hung {
				c16Hangs.Add(1)
				c.Fail(sub, i, "hang:"+op+"-while-allow-callback-runs:"+vf.LibFrame(res.dump), fmt.Sprintf("%s; %s (call %d) is blocked inside the library\n%s", desc, op, k, res.dump), wit())
				ok = false
				break
			}
			if !c16CheckResult(c, sub, i, order, k, res, closed, wit) {
				ok = false
				break
			}
			if op == "Close" {
				closed = true
			}
		}
		close(gate)
		select {
		case e := <-parked:
			if ok && closed && !errors.Is(e, announce.ErrClosed) && e != nil {
				c.Fail(sub, i, "parked-direct-unexpected-error", e.Error(), wit())
			}
		case <-time.After(c16Watchdog):
			c.Inconclusive(sub, i, "parked-direct-did-not-return", "", wit())
		}
		if !closed || !ok {
			_ = rc.Close()
		}
		c.Eval(1)
		c.Inc("calls_made_while_allow_callback_ran")
		c.Distinct(sub, desc)
	}
}

// calls that are blocked inside the receiver when Close runs (Direct on a full buffer with no consumer, Next on an
// empty one), with contexts that are never cancelled: Close must wake every one of them with the closed error.
// Decided by the hang rule, not by a deadline.
func c16Blocked(c *vf.Ctx) {
	const sub = "close-wakes-blocked-calls"
	if !c.Active(sub) {
		return
	}
	n := c.N(60, 6000)
	pid := Keys()["ed25519"][0].ID
	for i := 0; i < n; i++ {
		if !c.Mine(sub, i) || c16TooManyHangs() {
			continue
		}
		r := c.Rand(sub, i)
		kind := []string{"Direct", "Next"}[r.Intn(2)]
		nblocked := 1 + r.Intn(3)
		nclose := 1 + r.Intn(2)
		withHost := r.Intn(4) == 0
		desc := fmt.Sprintf("%d x %s blocked, %d closers, host-without-topic=%v", nblocked, kind, nclose, withHost)
		c.Cur(sub, i, desc)
		wit := func() any { return map[string]any{"scenario": desc} }
		var passed atomic.Int64
		allow := func(peer.ID) bool { passed.Add(1); return true }
		var rc *announce.Receiver
		var err error
		var h host.Host
		if withHost {
			if h, err = newHost(); err != nil {
				c.Inconclusive(sub, i, "host-create", err.Error(), nil)
				continue
			}
			rc, err = announce.NewReceiver(h, "", announce.WithAllowPeer(allow))
		} else {
			rc, err = announce.NewReceiver(nil, "", announce.WithAllowPeer(allow))
		}
		if err != nil {
			c.Fail(sub, i, "receiver-create-error", err.Error(), wit())
			continue
		}
		if kind == "Direct" {
			// fills the one-slot buffer; nobody reads
			if err := rc.Direct(context.Background(), c09Cid(5000), peer.AddrInfo{ID: pid, Addrs: []multiaddr.Multiaddr{c09Marker(1)}}); err != nil {
				c.Fail(sub, i, "direct-unexpected-error", err.Error(), wit())
				continue
			}
		}
		errs := make([]error, nblocked)
		verdicts := make([]vf.Verdict, nblocked)
		dumps := make([]string, nblocked)
		var wg sync.WaitGroup
		for k := 0; k < nblocked; k++ {
			wg.Add(1)
			go func(k int) {
				defer wg.Done()
				// (the watchdog period is far longer than the moment these calls legitimately wait for Close)
				verdicts[k], dumps[k] = vf.Watch(c16Watchdog, func() {
					if kind == "Direct" {
						errs[k] = rc.Direct(context.Background(), c09Cid(5001+k), peer.AddrInfo{ID: pid, Addrs: []multiaddr.Multiaddr{c09Marker(2 + k)}})
					} else {
						_, errs[k] = rc.Next(context.Background())
					}
				})
			}(k)
		}
		// let the calls get into the receiver (whether or not they are already blocked decides nothing)
		want := int64(nblocked + 1)
		for w := 0; w < 400 && kind == "Direct" && passed.Load() < want; w++ {
			time.Sleep(50 * time.Microsecond)
		}
		time.Sleep(time.Duration(200+r.Intn(1500)) * time.Microsecond)
		var cwg sync.WaitGroup
		okClose := true
		var mu sync.Mutex
		for k := 0; k < nclose; k++ {
			cwg.Add(1)
			go func(k int) {
				defer cwg.Done()
				if !c16CheckResult(c, sub, i, []string{desc, "Close"}, k, c16Do(rc, "Close", k), false, wit) {
					mu.Lock()
					okClose = false
					mu.Unlock()
				}
			}(k)
		}
		cwg.Wait()
		if !okClose {
			c.Eval(1)
			continue // (a hung Close is reported; the blocked calls stay behind)
		}
		{
			wg.Wait()
			v, dump := vf.Returned, ""
			for k := range verdicts {
				if verdicts[k] == vf.Hung || (verdicts[k] == vf.Inconclusive && v == vf.Returned) {
					v, dump = verdicts[k], dumps[k]
				}
			}
			switch v {
			case vf.Hung:
				c16Hangs.Add(1)
				c.Fail(sub, i, "hang:blocked-"+kind+"-not-woken-by-Close:"+vf.LibFrame(dump), fmt.Sprintf("%s; Close returned, the blocked call did not\n%s", desc, dump), wit())
			case vf.Inconclusive:
				c16Hangs.Add(1)
				c.Inconclusive(sub, i, "blocked-call-did-not-return:"+kind, dump, wit())
			default:
				for k, e := range errs {
					if !errors.Is(e, announce.ErrClosed) {
						c.Fail(sub, i, "blocked-"+kind+"-returned-without-closed-error", fmt.Sprintf("call %d: %v", k, e), wit())
						break
					}
				}
				c.Inc("blocked_calls_woken_by_close")
			}
		}
		if h != nil {
			h.Close()
		}
		c.Eval(1)
		c.Distinct(sub, desc)
	}
}

// a receiver created with a libp2p host but without a pubsub topic (announcements arrive
// over HTTP only): every call sequence with a Close behaves as for the host-less receiver
func c16HostNoTopic(c *vf.Ctx) {
	const sub = "host-without-topic"
	if !c.Active(sub) {
		return
	}
	n := c.N(32, 800)
	for i := 0; i < n; i++ {
		if !c.Mine(sub, i) || c16TooManyHangs() {
			continue
		}
		r := c.Rand(sub, i)
		seq := []string{}
		for k := r.Intn(4); k > 0; k-- {
			seq = append(seq, c16Alphabet[r.Intn(len(c16Alphabet))])
		}
		seq = append(seq, "Close")
		for k := r.Intn(3); k > 0; k-- {
			seq = append(seq, c16Alphabet[r.Intn(len(c16Alphabet))])
		}
		c.Cur(sub, i, "host, no topic: "+strings.Join(seq, ","))
		shape := "NewReceiver(host, \"\")"
		wit := func() any { return map[string]any{"receiver": shape, "sequence": seq} }
		h, err := newHost()
		if err != nil {
			c.Inconclusive(sub, i, "host-create", err.Error(), nil)
			continue
		}
		var rc *announce.Receiver
		stopPS := func() {}
		if i%3 == 2 {
			// the converse: a ready-made topic (for republication) but no host, so no watcher either
			shape = "NewReceiver(nil, \"\", WithTopic(t))"
			topic, cancelPS, terr := gossiptopic.MakeTopic(h, fmt.Sprintf("/verif/c16/nohost/%d/%d", c.Seed, i))
			if terr != nil {
				c.Inconclusive(sub, i, "topic-create", terr.Error(), nil)
				h.Close()
				continue
			}
			stopPS = cancelPS
			rc, err = announce.NewReceiver(nil, "", announce.WithTopic(topic))
			c.Inc("topic_without_host_runs")
		} else {
			rc, err = announce.NewReceiver(h, "")
		}
		if err != nil {
			c.Fail(sub, i, "receiver-create-error", err.Error(), wit())
			h.Close()
			continue
		}
		time.Sleep(time.Duration(r.Intn(2000)) * time.Microsecond) // whatever the receiver started gets to run
		closed := false
		ok := true
		for k, op := range seq {
			res := c16Do(rc, op, k)
			if !c16CheckResult(c, sub, i, seq, k, res, closed, wit) {
				ok = false
				break
			}
			if op == "Close" {
				closed = true
			}
		}
		if ok {
			for k, op := range []string{"Uncache", "Direct", "Next", "Close"} {
				if !c16CheckResult(c, sub, i, append(append([]string(nil), seq...), "then:"+op), len(seq)+k, c16Do(rc, op, 100+k), true, wit) {
					break
				}
			}
			for _, g := range vf.LibGoroutines() {
				if strings.Contains(g, "announce.(*Receiver).watch") {
					c.Fail(sub, i, "watcher-still-running", g, wit())
					break
				}
			}
		}
		stopPS()
		h.Close()
		c.Eval(1)
		c.Inc("host_without_topic_runs")
		c.Distinct(sub, shape+":"+strings.Join(seq, ","))
	}
}

// many Direct and UncacheCid calls at once on few CIDs, a consumer taking what is delivered: all of them return, and
// Close returns afterwards (the two calls share the duplicate cache; whatever guards it must not be able to deadlock)
func c16UncacheStress(c *vf.Ctx) {
	const sub = "uncache-direct-stress"
	if !c.Active(sub) {
		return
	}
	n := c.N(8, 80)
	pid := Keys()["ed25519"][0].ID
	for i := 0; i < n; i++ {
		if !c.Mine(sub, i) || c16TooManyHangs() {
			continue
		}
		r := c.Rand(sub, i)
		nd, nu := 2+r.Intn(4), 2+r.Intn(4)
		desc := fmt.Sprintf("%d goroutines x 300 Direct, %d goroutines x 3000 UncacheCid, 3 CIDs, one consumer; then Close", nd, nu)
		c.Cur(sub, i, desc)
		wit := func() any { return map[string]any{"scenario": desc} }
		rc, err := announce.NewReceiver(nil, "")
		if err != nil {
			c.Fail(sub, i, "receiver-create-error", err.Error(), wit())
			continue
		}
		ctx, cancel := context.WithCancel(context.Background())
		var delivered, calls atomic.Int64
		consumerDone := make(chan struct{})
		go func() {
			defer close(consumerDone)
			for {
				if _, err := rc.Next(ctx); err != nil {
					return
				}
				delivered.Add(1)
			}
		}()
		var wg sync.WaitGroup
		for g := 0; g < nd; g++ {
			wg.Add(1)
			go func(g int) {
				defer wg.Done()
				for k := 0; k < 300 && ctx.Err() == nil; k++ {
					_ = rc.Direct(ctx, c09Cid((g+k)%3), peer.AddrInfo{ID: pid, Addrs: []multiaddr.Multiaddr{c09Marker(k)}})
					calls.Add(1)
				}
			}(g)
		}
		for g := 0; g < nu; g++ {
			wg.Add(1)
			go func(g int) {
				defer wg.Done()
				for k := 0; k < 3000 && ctx.Err() == nil; k++ {
					rc.UncacheCid(c09Cid((g + k) % 3))
					calls.Add(1)
				}
			}(g)
		}
		finished := make(chan struct{})
		go func() { wg.Wait(); close(finished) }()
		stalled := false
		select {
		case <-finished:
		case <-time.After(c16Watchdog):
			stalled = true
		}
		cancel()
		res := c16Do(rc, "Close", 0)
		if c16CheckResult(c, sub, i, []string{"Direct||UncacheCid", "Close"}, 1, res, false, wit) {
			if stalled {
				c.Inconclusive(sub, i, "stress-phase-did-not-finish", fmt.Sprintf("%d calls returned", calls.Load()), wit())
			} else {
				for k, op := range []string{"Direct", "Next", "Uncache", "Close"} {
					if !c16CheckResult(c, sub, i, []string{"after-stress", op}, k, c16Do(rc, op, 100+k), true, wit) {
						break
					}
				}
			}
		}
		select {
		case <-consumerDone:
		case <-time.After(c16Watchdog):
		}
		c.Eval(1)
		c.Add("stress_calls_returned", calls.Load())
		c.Add("stress_announcements_delivered", delivered.Load())
		c.Inc("stress_runs")
		c.Distinct(sub, fmt.Sprintf("%d/%d", nd, nu))
	}
}

// all sequences up to length L
func c16Sequential(c *vf.Ctx) {
	const sub = "sequences"
	if !c.Active(sub) {
		return
	}
	L := c.N(4, 5)
	idx := 0
	for ln := 1; ln <= L; ln++ {
		total := 1
		for k := 0; k < ln; k++ {
			total *= len(c16Alphabet)
		}
		for s := 0; s < total; s++ {
			i := idx
			idx++
			if !c.Mine(sub, i) || c16TooManyHangs() {
				continue
			}
			seq := make([]string, ln)
			x := s
			nClose := 0
			for k := range seq {
				seq[k] = c16Alphabet[x%len(c16Alphabet)]
				x /= len(c16Alphabet)
				if seq[k] == "Close" {
					nClose++
				}
			}
			// only sequences that contain a Close are about shutdown
			if nClose == 0 {
				continue
			}
			for _, filter := range []string{"none", "rejects-the-announcing-peer"} {
				c.Cur(sub, i, strings.Join(seq, ",")+" allow-filter="+filter)
				filter := filter
				wit := func() any { return map[string]any{"sequence": seq, "allow_filter": filter} }
				var ropts []announce.Option
				if filter != "none" {
					ropts = append(ropts, announce.WithAllowPeer(func(peer.ID) bool { return false }))
				}
				rc, err := announce.NewReceiver(nil, "", ropts...)
				if err != nil {
					c.Fail(sub, i, "harness-receiver", err.Error(), nil)
					continue
				}
				closed := false
				okSoFar := true
				for k, op := range seq {
					res := c16Do(rc, op, k)
					if !c16CheckResult(c, sub, i, seq, k, res, closed, wit) {
						okSoFar = false
						break
					}
					if op == "Close" {
						closed = true
					}
				}
				if okSoFar {
					// the receiver must still answer every kind of call after the sequence
					for k, op := range []string{"Uncache", "Direct", "Next", "Close"} {
						res := c16Do(rc, op, 100+k)
						if !c16CheckResult(c, sub, i, append(append([]string(nil), seq...), "then:"+op), len(seq)+k, res, closed, wit) {
							break
						}
					}
				}
				c.Eval(1)
				c.Distinct(sub, strings.Join(seq, ","), filter)
				if nClose >= 2 {
					c.Inc("sequences_with_repeated_close")
				}
				if filter != "none" {
					c.Inc("sequences_with_rejecting_allow_filter")
				}
				if c.WantSample(sub) && nClose >= 2 {
					c.Sample(sub, wit())
				}
			}
		}
	}
	c.Add("sequence_max_length", int64(L))
}

// 2..4 goroutines racing Close with the other calls
func c16Concurrent(c *vf.Ctx) {
	const sub = "interleavings"
	if !c.Active(sub) {
		return
	}
	n := c.N(800, 20000)
	for i := 0; i < n; i++ {
		if !c.Mine(sub, i) || c16TooManyHangs() {
			continue
		}
		r := c.Rand(sub, i)
		ng := 2 + r.Intn(3)
		scripts := make([][]string, ng)
		for g := range scripts {
			for k := 1 + r.Intn(4); k > 0; k-- {
				scripts[g] = append(scripts[g], c16Alphabet[r.Intn(len(c16Alphabet))])
			}
		}
		scripts[r.Intn(ng)][0] = "Close"
		if r.Intn(2) == 0 {
			g := r.Intn(ng)
			scripts[g] = append(scripts[g], "Close")
		}
		c.Cur(sub, i, fmt.Sprint(scripts))
		wit := func() any { return map[string]any{"goroutine_scripts": scripts} }
		rc, err := announce.NewReceiver(nil, "")
		if err != nil {
			continue
		}
		var wg sync.WaitGroup
		var mu sync.Mutex
		var order []string
		failed := false
		start := make(chan struct{})
		for g := range scripts {
			wg.Add(1)
			go func(g int) {
				defer wg.Done()
				<-start
				for k, op := range scripts[g] {
					if r := g*7 + k; r%3 == 0 {
						time.Sleep(time.Duration(r%5) * 100 * time.Microsecond)
					}
					res := c16Do(rc, op, g*10+k)
					mu.Lock()
					order = append(order, fmt.Sprintf("g%d:%s:%v", g, op, res.err))
					mu.Unlock()
					// while other goroutines may or may not have closed, only hangs and foreign errors are decidable
					if res.verdict != vf.Returned {
						c16CheckResult(c, sub, i, scripts[g], k, res, false, wit)
						mu.Lock()
						failed = true
						mu.Unlock()
						return
					}
					if res.err != nil && !errors.Is(res.err, context.Canceled) && !errors.Is(res.err, announce.ErrClosed) {
						c.Fail(sub, i, "unexpected-error:"+op, res.err.Error(), wit())
					}
				}
			}(g)
		}
		close(start)
		wg.Wait()
		if !failed {
			// a Close has completed: later calls must not hang and must report closed
			for k, op := range []string{"Direct", "Next", "Uncache", "Close", "Close"} {
				res := c16Do(rc, op, 200+k)
				if !c16CheckResult(c, sub, i, []string{"after-concurrent-phase", op}, k, res, true, wit) {
					break
				}
			}
		}
		c.Eval(1)
		mu.Lock()
		c.DistinctIn("interleavings", strings.Join(order, " "))
		mu.Unlock()
		c.Distinct(sub, fmt.Sprint(scripts))
		c.Inc("concurrent_runs")
	}
}

// with a real pubsub topic: announcements keep arriving over gossip while Close is
// called (the allow callback doubles as a delay point between the watcher's steps),
// and the watcher goroutine must exit
func c16Pubsub(c *vf.Ctx) {
	const sub = "pubsub-shutdown"
	if !c.Active(sub) {
		return
	}
	n := c.N(8, 120)
	for i := 0; i < n; i++ {
		if !c.Mine(sub, i) || c16TooManyHangs() {
			continue
		}
		c.Cur(sub, i, "")
		// environment trouble (hosts, gossip mesh) is retried with fresh hosts before it counts as inconclusive
		envTrouble := ""
		for attempt := 0; attempt < 3; attempt++ {
			envTrouble = ""
			r := c.Rand(sub, i*10+attempt)
			hA, err1 := newHost()
			hR, err2 := newHost()
			if err1 != nil || err2 != nil {
				envTrouble = "host-create: " + fmt.Sprint(err1, err2)
				continue
			}
			func() {
				defer hA.Close()
				defer hR.Close()
				topicName := fmt.Sprintf("/verif/c16/%d/%d", c.Seed, i)
				topics, cancelPS, err := meshTopics([]host.Host{hA, hR}, topicName)
				if err != nil {
					envTrouble = "mesh: " + err.Error()
					return
				}
				defer cancelPS()
				delay := time.Duration(1+r.Intn(8)) * time.Millisecond
				var inAllow atomic.Int64
				allow := func(peer.ID) bool {
					inAllow.Add(1)
					time.Sleep(delay)
					return true
				}
				ownTopic := r.Intn(2) == 0
				var rc *announce.Receiver
				if ownTopic {
					rc, err = announce.NewReceiver(hR, topicName, announce.WithTopic(topics[1]), announce.WithAllowPeer(allow))
				} else {
					rc, err = announce.NewReceiver(hR, topicName, announce.WithTopic(topics[1]), announce.WithAllowPeer(allow), announce.WithResend(true))
				}
				if err != nil {
					envTrouble = "receiver-create: " + err.Error()
					return
				}
				snd, err := p2psender.New(nil, "", p2psender.WithTopic(topics[0]))
				if err != nil {
					envTrouble = "sender-create: " + err.Error()
					return
				}
				col := collect(rc)
				stop := make(chan struct{})
				var pubWG sync.WaitGroup
				pubWG.Add(1)
				go func() {
					defer pubWG.Done()
					for k := 0; ; k++ {
						select {
						case <-stop:
							return
						default:
						}
						m := message.Message{Cid: c09Cid(800000 + 1000*i + k)}
						m.SetAddrs([]multiaddr.Multiaddr{multiaddr.StringCast("/ip4/8.8.4.4/tcp/1/http")})
						_ = snd.Send(context.Background(), m)
						time.Sleep(2 * time.Millisecond)
					}
				}()
				defer func() { close(stop); pubWG.Wait(); snd.Close() }()
				// wait until gossip announcements actually flow into the receiver
				deadline := time.Now().Add(45 * time.Second)
				for len(col.snapshot()) < 2 && time.Now().Before(deadline) {
					time.Sleep(5 * time.Millisecond)
				}
				if len(col.snapshot()) < 2 {
					envTrouble = "mesh-not-formed: no gossip announcement reached the receiver within 45 s"
					rc.Close()
					return
				}
				nclose := 1 + r.Intn(3)
				var stopPubsubFirst bool
				wit := func() any {
					return map[string]any{"pubsub": true, "pubsub_stopped_before_close": stopPubsubFirst, "concurrent_closers": nclose, "allow_callback_delay": delay.String(), "resend": !ownTopic, "announcements_in_allow_callback_before_close": inAllow.Load()}
				}
				// start Close right after the watcher entered the allow callback (it is between its steps)
				before := inAllow.Load()
				for w := 0; w < 2000 && inAllow.Load() == before; w++ {
					time.Sleep(200 * time.Microsecond)
				}
				stopPubsubFirst = r.Intn(3) == 0
				if stopPubsubFirst {
					// the owner of the shared topic stops its pubsub before the receiver is closed
					cancelPS()
					time.Sleep(time.Duration(1+r.Intn(5)) * time.Millisecond)
					c.Inc("pubsub_stopped_before_receiver_close")
				}
				var wg sync.WaitGroup
				okAll := true
				var mu sync.Mutex
				for k := 0; k < nclose; k++ {
					wg.Add(1)
					go func(k int) {
						defer wg.Done()
						if !c16CheckResult(c, sub, i, []string{"Close while gossip announcements are being handled"}, k, c16Do(rc, "Close", k), false, wit) {
							mu.Lock()
							okAll = false
							mu.Unlock()
						}
					}(k)
				}
				wg.Wait()
				if !okAll {
					return
				}
				for k, op := range []string{"Direct", "Next", "Uncache", "Close"} {
					if !c16CheckResult(c, sub, i, []string{"after-close", op}, k, c16Do(rc, op, 50+k), true, wit) {
						return
					}
				}
				var left []string
				for try := 0; try < 100; try++ {
					left = left[:0]
					for _, g := range vf.LibGoroutines() {
						if strings.Contains(g, "announce.(*Receiver).watch") {
							left = append(left, g)
						}
					}
					if len(left) == 0 {
						break
					}
					time.Sleep(10 * time.Millisecond)
				}
				if len(left) > 0 {
					c.Fail(sub, i, "pubsub-watcher-still-running", left[0], wit())
				}
				c.Inc("pubsub_shutdowns")
				c.Add("gossip_announcements_handled_before_close", inAllow.Load())
				if c.WantSample(sub) {
					c.Sample(sub, wit())
				}
			}()
			if envTrouble == "" {
				break
			}
			c.Inc("pubsub_attempts_retried")
		}
		if envTrouble != "" {
			c.Inconclusive(sub, i, "pubsub-environment", envTrouble, nil)
		}
		c.Eval(1)
		c.Distinct(sub, fmt.Sprint(i))
	}
}

// c16Resend: a receiver that republishes direct announcements on its topic, on a host that has no topic peers at all.
// Direct calls with contexts that are never cancelled return (the announcement is delivered to the consumer), also
// when Close races with them.
func c16Resend(c *vf.Ctx) {
	const sub = "resend-without-topic-peers"
	if !c.Active(sub) {
		return
	}
	n := c.N(16, 600)
	pid := Keys()["ed25519"][1].ID
	for i := 0; i < n; i++ {
		if !c.Mine(sub, i) || c16TooManyHangs() {
			continue
		}
		r := c.Rand(sub, i)
		own := r.Intn(2) == 0
		racing := 1 + r.Intn(3)
		desc := fmt.Sprintf("receiver-creates-its-topic=%v direct-calls-racing-with-close=%d", own, racing)
		c.Cur(sub, i, desc)
		wit := func() any { return map[string]any{"scenario": desc} }
		h, err := newHost()
		if err != nil {
			c.Inconclusive(sub, i, "host-create", err.Error(), nil)
			continue
		}
		topicName := fmt.Sprintf("/verif/c16r/%d/%d", c.Seed, i)
		var rc *announce.Receiver
		cancelPS := func() {}
		if own {
			rc, err = announce.NewReceiver(h, topicName, announce.WithResend(true))
		} else {
			var topics []*pubsub.Topic
			topics, cancelPS, err = meshTopics([]host.Host{h}, topicName)
			if err == nil {
				rc, err = announce.NewReceiver(h, topicName, announce.WithTopic(topics[0]), announce.WithResend(true))
			}
		}
		if err != nil {
			c.Fail(sub, i, "receiver-create-error", err.Error(), wit())
			cancelPS()
			h.Close()
			continue
		}
		col := collect(rc)
		direct := func(k int) (vf.Verdict, string, error) {
			var derr error
			v, dump := vf.Watch(c16Watchdog, func() {
				derr = rc.Direct(context.Background(), c09Cid(900000+100*i+k), peer.AddrInfo{ID: pid, Addrs: []multiaddr.Multiaddr{c09Marker(k)}})
			})
			return v, dump, derr
		}
		report := func(what string, v vf.Verdict, dump string) bool {
			if v == vf.Returned {
				return true
			}
			c16Hangs.Add(1)
			if v == vf.Hung {
				c.Fail(sub, i, "hang:"+what+":"+vf.LibFrame(dump), dump, wit())
			} else {
				c.Inconclusive(sub, i, "did-not-return:"+what, dump, wit())
			}
			return false
		}
		ok := true
		// a direct announcement while nobody else is on the topic
		if v, dump, derr := direct(0); !report("Direct-with-resend-and-no-topic-peers", v, dump) {
			ok = false
		} else if derr != nil {
			c.Fail(sub, i, "direct-unexpected-error", derr.Error(), wit())
			ok = false
		} else if _, got := waitFor(col, 20*time.Second, func(a announce.Announce) bool { return a.Cid.Equals(c09Cid(900000 + 100*i)) }); !got {
			c.Fail(sub, i, "direct-announcement-not-delivered", "", wit())
			ok = false
		}
		if ok {
			var wg sync.WaitGroup
			var mu sync.Mutex
			for k := 1; k <= racing; k++ {
				wg.Add(1)
				go func(k int) {
					defer wg.Done()
					v, dump, derr := direct(k)
					mu.Lock()
					defer mu.Unlock()
					if !report("Direct-racing-with-Close", v, dump) {
						ok = false
					} else if derr != nil && !errors.Is(derr, announce.ErrClosed) {
						c.Fail(sub, i, "direct-unexpected-error", derr.Error(), wit())
					}
				}(k)
			}
			time.Sleep(time.Duration(r.Intn(1500)) * time.Microsecond)
			v, dump := vf.Watch(c16Watchdog, func() { _ = rc.Close() })
			wg.Wait()
			mu.Lock()
			if !report("Close", v, dump) {
				ok = false
			}
			mu.Unlock()
		}
		if !ok {
			// (leave the stuck receiver alone; the host goes away with its goroutines)
			cancelPS()
			h.Close()
			continue
		}
		rc.Close()
		cancelPS()
		h.Close()
		c.Eval(1)
		c.Inc("resend_receivers_without_topic_peers")
		c.Distinct(sub, desc)
	}
}
