package props

import (
	"github.com/libp2p/go-libp2p/core/host"
	"github.com/libp2p/go-libp2p"
	"bytes"
	"context"
	"fmt"
	"io"
	"math/rand"
	"net"
	"net/http"
	"net/http/httptest"
	"net/url"
	"path"
	"strings"
	"sync"
	"sync/atomic"

	"github.com/ipfs/go-cid"
	"github.com/ipld/go-ipld-prime"
	cidlink "github.com/ipld/go-ipld-prime/linking/cid"
	"github.com/ipni/go-libipni/dagsync/ipnisync"
	"github.com/ipni/go-libipni/ingest/schema"
	"github.com/ipni/go-libipni/maurl"
	"github.com/libp2p/go-libp2p/core/peer"
	libp2phttp "github.com/libp2p/go-libp2p/p2p/http"
	"github.com/multiformats/go-multiaddr"
	"github.com/multiformats/go-multihash"

	"verif/harness/vf"
)

// ---- stores -----------------------------------------------------------------------------

// Store is a memstore-backed link system that logs writes.
type Store struct {
	Lsys   ipld.LinkSystem
	Mem    *lockedMem
	mu     sync.Mutex
	Writes []string // keys committed, in order (logical clock in WriteAt)
	OnPut  func(key string)
	// write fault: the FaultAt-th block write opened from now on (0-based) accepts FaultCap bytes and then fails
	// with a short write, the way storage that runs out of space does; its committer still commits what it has
	// (temp-file-then-rename style). FaultAt < 0: no fault.
	FaultAt, FaultCap int
	opened            int
	FaultHit          int
}

// SetWriteFault arms (at >= 0) or disarms (at < 0) the write fault.
func (s *Store) SetWriteFault(at, capBytes int) {
	s.mu.Lock()
	s.FaultAt, s.FaultCap, s.opened = at, capBytes, 0
	s.mu.Unlock()
}

func (s *Store) WriteFaultHits() int {
	s.mu.Lock()
	defer s.mu.Unlock()
	return s.FaultHit
}

type limitWriter struct {
	w    io.Writer
	left int
	s    *Store
}

var errNoSpace = fmt.Errorf("injected: no space left on device")

func (l *limitWriter) Write(p []byte) (int, error) {
	if len(p) <= l.left {
		l.left -= len(p)
		return l.w.Write(p)
	}
	n, _ := l.w.Write(p[:l.left])
	l.left = 0
	l.s.mu.Lock()
	l.s.FaultHit++
	l.s.mu.Unlock()
	return n, errNoSpace
}

// lockedMem is a thread-safe in-memory block store (go-ipld-prime's memstore is not
// safe for the concurrent syncs of several publishers into one destination store).
type lockedMem struct {
	mu  sync.RWMutex
	Bag map[string][]byte
}

func (m *lockedMem) Has(_ context.Context, key string) (bool, error) {
	m.mu.RLock()
	defer m.mu.RUnlock()
	_, ok := m.Bag[key]
	return ok, nil
}

func (m *lockedMem) Get(_ context.Context, key string) ([]byte, error) {
	m.mu.RLock()
	defer m.mu.RUnlock()
	b, ok := m.Bag[key]
	if !ok {
		return nil, fmt.Errorf("404") // same as go-ipld-prime's memstore
	}
	return append([]byte(nil), b...), nil
}

func (m *lockedMem) Put(_ context.Context, key string, content []byte) error {
	m.mu.Lock()
	defer m.mu.Unlock()
	if _, ok := m.Bag[key]; ok {
		return nil
	}
	m.Bag[key] = append([]byte(nil), content...)
	return nil
}

func (m *lockedMem) Delete(key string) {
	m.mu.Lock()
	delete(m.Bag, key)
	m.mu.Unlock()
}

func (m *lockedMem) snapshot() map[string][]byte {
	m.mu.RLock()
	defer m.mu.RUnlock()
	out := make(map[string][]byte, len(m.Bag))
	for k, v := range m.Bag {
		out[k] = v
	}
	return out
}

func NewStore() *Store {
	s := &Store{Mem: &lockedMem{Bag: map[string][]byte{}}, FaultAt: -1}
	s.Lsys = cidlink.DefaultLinkSystem()
	s.Lsys.SetReadStorage(s.Mem)
	s.Lsys.SetWriteStorage(s.Mem)
	// wrap the write opener to log commits
	inner := s.Lsys.StorageWriteOpener
	s.Lsys.StorageWriteOpener = func(lc ipld.LinkContext) (io.Writer, ipld.BlockWriteCommitter, error) {
		w, commit, err := inner(lc)
		if err != nil {
			return nil, nil, err
		}
		s.mu.Lock()
		if s.FaultAt >= 0 {
			if s.opened == s.FaultAt {
				w = &limitWriter{w: w, left: s.FaultCap, s: s}
			}
			s.opened++
		}
		s.mu.Unlock()
		return w, func(l ipld.Link) error {
			err := commit(l)
			if err == nil {
				s.mu.Lock()
				s.Writes = append(s.Writes, l.(cidlink.Link).Cid.String())
				f := s.OnPut
				s.mu.Unlock()
				if f != nil {
					f(l.(cidlink.Link).Cid.String())
				}
			}
			return err
		}, nil
	}
	return s
}

func (s *Store) Has(c cid.Cid) bool {
	ok, _ := s.Mem.Has(nil, cidlink.Link{Cid: c}.Binary())
	return ok
}

func (s *Store) Raw(c cid.Cid) ([]byte, bool) {
	b, err := s.Mem.Get(nil, cidlink.Link{Cid: c}.Binary())
	return b, err == nil
}

func (s *Store) PutRaw(c cid.Cid, b []byte) {
	_ = s.Mem.Put(nil, cidlink.Link{Cid: c}.Binary(), b)
}

func (s *Store) NumWrites() int {
	s.mu.Lock()
	defer s.mu.Unlock()
	return len(s.Writes)
}

// Audit re-hashes every stored value with the hash function and length of the
// CID it is stored under. Returns the keys that do not verify.
// Keys returns the CIDs under which the store holds something.
func (s *Store) Keys() []cid.Cid {
	var out []cid.Cid
	for k := range s.Mem.snapshot() {
		if c, err := cid.Cast([]byte(k)); err == nil {
			out = append(out, c)
		}
	}
	return out
}

func (s *Store) Audit() (n int, bad []string) {
	for k, v := range s.Mem.snapshot() {
		n++
		c, err := cid.Cast([]byte(k))
		if err != nil {
			bad = append(bad, fmt.Sprintf("unparseable key %x", k))
			continue
		}
		p := c.Prefix()
		sum, err := multihash.Sum(v, p.MhType, p.MhLength)
		if err != nil || !bytes.Equal(sum, c.Hash()) {
			bad = append(bad, c.String())
		}
	}
	return
}

// ---- chains -----------------------------------------------------------------------------

// Chain is an advertisement chain; Cids[0] is the oldest advertisement,
// Cids[len-1] the head.
type Chain struct {
	Cids  []cid.Cid
	Proto cidlink.LinkPrototype
}

func (ch *Chain) Head() cid.Cid { return ch.Cids[len(ch.Cids)-1] }

// Pos returns the index of c in the chain or -1.
func (ch *Chain) Pos(c cid.Cid) int {
	for i, x := range ch.Cids {
		if x.Equals(c) {
			return i
		}
	}
	return -1
}

func linkProto(mhType uint64, mhLen int) cidlink.LinkPrototype {
	return cidlink.LinkPrototype{Prefix: cid.Prefix{Version: 1, Codec: cid.DagJSON, MhType: mhType, MhLength: mhLen}}
}

// ExtendChain appends n advertisements to the chain, storing them in st.
func ExtendChain(r *rand.Rand, st *Store, ch *Chain, n int, provider peer.ID) error {
	for k := 0; k < n; k++ {
		ad := schema.Advertisement{
			Provider:  provider.String(),
			Addresses: []string{"/ip4/8.8.8.8/tcp/1234"},
			Entries:   schema.NoEntries,
			ContextID: rbytes(r, 4+r.Intn(8)),
			Metadata:  rbytes(r, 1+r.Intn(8)),
			Signature: rbytes(r, 8), // dagsync does not verify ad signatures
		}
		if len(ch.Cids) > 0 {
			ad.PreviousID = cidlink.Link{Cid: ch.Head()}
		}
		nd, err := ad.ToNode()
		if err != nil {
			return err
		}
		l, err := st.Lsys.Store(ipld.LinkContext{}, ch.Proto, nd)
		if err != nil {
			return err
		}
		ch.Cids = append(ch.Cids, l.(cidlink.Link).Cid)
	}
	return nil
}

func NewChain(r *rand.Rand, st *Store, n int, provider peer.ID, proto cidlink.LinkPrototype) (*Chain, error) {
	ch := &Chain{Proto: proto}
	return ch, ExtendChain(r, st, ch, n, provider)
}

// NewEntryChain builds n entry chunks linked by Next; Cids[0] is the LAST chunk
// (no Next), Cids[n-1] the first (root) chunk — same orientation as ad chains.
func NewEntryChain(r *rand.Rand, st *Store, n int, proto cidlink.LinkPrototype) (*Chain, error) {
	ch := &Chain{Proto: proto}
	for k := 0; k < n; k++ {
		ec := schema.EntryChunk{}
		for e := 1 + r.Intn(3); e > 0; e-- {
			mh, _ := multihash.Sum(rbytes(r, 8), multihash.SHA2_256, -1)
			ec.Entries = append(ec.Entries, mh)
		}
		if len(ch.Cids) > 0 {
			ec.Next = cidlink.Link{Cid: ch.Head()}
		}
		nd, err := ec.ToNode()
		if err != nil {
			return nil, err
		}
		l, err := st.Lsys.Store(ipld.LinkContext{}, proto, nd)
		if err != nil {
			return nil, err
		}
		ch.Cids = append(ch.Cids, l.(cidlink.Link).Cid)
	}
	return ch, nil
}

// ---- publisher front ---------------------------------------------------------------------

// Fault describes what the front does to one request instead of (or in addition to) serving it.
type Fault struct {
	Status   int                       // respond with this status instead
	Redirect string                    // respond 302 with this resource (same directory) as Location
	Body     []byte                    // respond 200 with exactly this body
	Mutate   func(orig []byte) []byte  // respond 200 with a mutated body
	Truncate int                       // >0: announce full Content-Length, write only this many bytes, close
	Reset    bool                      // close the connection with RST before answering
	Stall    <-chan struct{}           // hold the response until closed (or client gone)
	Gate     <-chan struct{}           // hold the request until closed, then serve normally
	OnArrive func()                    // called when the request arrives (before gating)
	Label    string
}

// ReqEvent is one request as seen by the front.
type ReqEvent struct {
	N      int
	Path   string
	Rsrc   string // "head", a CID string, or ".well-known…"
	Occur  int    // how many times this resource was requested before
	Begin  int64
	End    int64
	Fault  string
	Status int
}

// Front wraps a real ipnisync.Publisher with request logging, gating and fault injection.
type Front struct {
	c    *vf.Ctx
	Pub  *ipnisync.Publisher
	ID   Ident
	St   *Store
	srv  *httptest.Server // real TCP (only when fault fidelity at the socket level matters)
	msrv *memServer       // in-memory network (default)
	p2ph *libp2phttp.Host
	streamHost host.Host
	Addr multiaddr.Multiaddr
	URL  *url.URL

	mu      sync.Mutex
	log     []*ReqEvent
	occur   map[string]int
	Plan    func(ev ReqEvent) *Fault // decides per request
	open    atomic.Int64
	stripTo string
	legacy  bool
}

type FrontMode int

const (
	MountPlain     FrontMode = iota // net/http server, requests carry /ipni/v1/ad/
	MountLegacy                     // net/http server that only answers without the IPNI path
	MountDiscovery                  // libp2phttp host over HTTP: .well-known is served
	MountStream                     // libp2phttp host over libp2p streams (the subscriber needs a libp2p host)
)

func (m FrontMode) String() string {
	return [...]string{"plain", "legacy-nopath", "libp2phttp-discovery", "libp2p-stream"}[m]
}

// RealTCPFronts makes plain/legacy fronts listen on real sockets instead of the in-memory network.
var RealTCPFronts = false

func NewFront(c *vf.Ctx, id Ident, st *Store, mode FrontMode, topic string) (*Front, error) {
	f := &Front{c: c, ID: id, St: st, occur: map[string]int{}}
	opts := []ipnisync.Option{ipnisync.WithStartServer(false), ipnisync.WithHTTPListenAddrs("http://127.0.0.1:0")}
	if topic != "" {
		opts = append(opts, ipnisync.WithHeadTopic(topic))
	}
	pub, err := ipnisync.NewPublisher(st.Lsys, id.Priv, opts...)
	if err != nil {
		return nil, err
	}
	f.Pub = pub
	switch mode {
	case MountPlain, MountLegacy:
		f.legacy = mode == MountLegacy
		var surl string
		if RealTCPFronts {
			f.srv = httptest.NewServer(f)
			surl = f.srv.URL
		} else {
			f.msrv = newMemServer(f)
			surl = f.msrv.URL
		}
		u, _ := url.Parse(surl)
		f.URL = u
		f.Addr, err = maurl.FromURL(u)
		if err != nil {
			return nil, err
		}
	case MountStream:
		f.stripTo = "/ipni/v1/ad/"
		sh, err := libp2p.New(libp2p.Identity(id.Priv), libp2p.ListenAddrStrings("/ip4/127.0.0.1/tcp/0"), libp2p.DisableRelay(), libp2p.ResourceManager(nil))
		if err != nil {
			return nil, err
		}
		h := &libp2phttp.Host{StreamHost: sh}
		h.SetHTTPHandlerAtPath(ipnisync.ProtocolID, "/ipni/v1/ad", f)
		go h.Serve()
		f.p2ph = h
		f.streamHost = sh
		f.Addr = sh.Addrs()[0]
	case MountDiscovery:
		f.stripTo = "/ipni/v1/ad/"
		h := &libp2phttp.Host{
			ListenAddrs:       []multiaddr.Multiaddr{multiaddr.StringCast("/ip4/127.0.0.1/tcp/0/http")},
			InsecureAllowHTTP: true,
		}
		h.SetHTTPHandlerAtPath(ipnisync.ProtocolID, "/ipni/v1/ad", f)
		// log the discovery requests as well
		go h.Serve()
		addrs := h.Addrs()
		if len(addrs) == 0 {
			return nil, fmt.Errorf("libp2phttp host has no address")
		}
		f.p2ph = h
		f.Addr = addrs[0]
		f.URL, _ = maurl.ToURL(f.Addr)
	}
	return f, nil
}

func (f *Front) Close() {
	if f.srv != nil {
		f.srv.CloseClientConnections()
		f.srv.Close()
	}
	if f.msrv != nil {
		f.msrv.Close()
	}
	if f.p2ph != nil {
		f.p2ph.Close()
	}
	if f.streamHost != nil {
		f.streamHost.Close()
	}
}

func (f *Front) AddrInfo() peer.AddrInfo {
	return peer.AddrInfo{ID: f.ID.ID, Addrs: []multiaddr.Multiaddr{f.Addr}}
}

// Log returns a copy of the request log.
func (f *Front) Log() []ReqEvent {
	f.mu.Lock()
	defer f.mu.Unlock()
	out := make([]ReqEvent, len(f.log))
	for i, e := range f.log {
		out[i] = *e
	}
	return out
}

func (f *Front) ResetLog() {
	f.mu.Lock()
	f.log = nil
	f.occur = map[string]int{}
	f.mu.Unlock()
}

// SetPlan replaces the fault plan while requests may be in flight.
func (f *Front) SetPlan(p func(ev ReqEvent) *Fault) {
	f.mu.Lock()
	f.Plan = p
	f.mu.Unlock()
}

func (f *Front) OpenRequests() int64 { return f.open.Load() }

// BlockRequests returns the resources requested (excluding discovery), in order.
func BlockRequests(log []ReqEvent) []string {
	var out []string
	for _, e := range log {
		if strings.HasPrefix(e.Rsrc, ".well-known") || e.Rsrc == "protocols" || e.Rsrc == "libp2p" {
			continue
		}
		out = append(out, e.Rsrc)
	}
	return out
}

func (f *Front) ServeHTTP(w http.ResponseWriter, r *http.Request) {
	f.open.Add(1)
	defer f.open.Add(-1)
	rsrc := path.Base(r.URL.Path)
	if strings.Contains(r.URL.Path, ".well-known") {
		rsrc = ".well-known/" + rsrc
	}
	f.mu.Lock()
	ev := &ReqEvent{N: len(f.log), Path: r.URL.Path, Rsrc: rsrc, Occur: f.occur[rsrc], Begin: f.c.Tick()}
	f.occur[rsrc]++
	f.log = append(f.log, ev)
	plan := f.Plan
	f.mu.Unlock()
	defer func() {
		f.mu.Lock()
		ev.End = f.c.Tick()
		f.mu.Unlock()
	}()

	var fault *Fault
	if plan != nil {
		fault = plan(*ev)
	}
	if fault != nil {
		f.mu.Lock()
		ev.Fault = fault.Label
		f.mu.Unlock()
		if fault.OnArrive != nil {
			fault.OnArrive()
		}
		if fault.Gate != nil {
			select {
			case <-fault.Gate:
			case <-r.Context().Done():
				return
			}
		}
		if fault.Stall != nil {
			select {
			case <-fault.Stall:
			case <-r.Context().Done():
			}
			return
		}
		if fault.Reset {
			if hj, ok := w.(http.Hijacker); ok {
				conn, _, err := hj.Hijack()
				if err == nil {
					if tc, ok := conn.(*net.TCPConn); ok {
						tc.SetLinger(0) // RST on real sockets; an in-memory connection is simply cut
					}
					if rs, ok := conn.(interface{ Reset() error }); ok {
						rs.Reset() // a libp2p stream is reset
					}
					conn.Close()
				}
			}
			return
		}
		if fault.Redirect != "" {
			f.setStatus(ev, http.StatusFound)
			http.Redirect(w, r, path.Join(path.Dir(r.URL.Path), fault.Redirect), http.StatusFound)
			return
		}
		if fault.Status != 0 {
			f.setStatus(ev, fault.Status)
			http.Error(w, "injected", fault.Status)
			return
		}
	}

	// serve through the real publisher, capturing the body when it must be altered
	rec := httptest.NewRecorder()
	f.servePublisher(rec, r)
	body := rec.Body.Bytes()
	status := rec.Code
	if fault != nil && status == http.StatusOK {
		switch {
		case fault.Body != nil:
			body = fault.Body
		case fault.Mutate != nil:
			body = fault.Mutate(append([]byte(nil), body...))
		case fault.Truncate > 0 && fault.Truncate < len(body):
			w.Header().Set("Content-Length", fmt.Sprint(len(body)))
			w.WriteHeader(http.StatusOK)
			w.Write(body[:fault.Truncate])
			if fl, ok := w.(http.Flusher); ok {
				fl.Flush()
			}
			if hj, ok := w.(http.Hijacker); ok {
				if conn, _, err := hj.Hijack(); err == nil {
					conn.Close()
				}
			}
			f.setStatus(ev, 200)
			return
		}
	} else if fault != nil && fault.Body != nil {
		// replace even non-200 answers (e.g. head with no root) when a body is dictated
		body, status = fault.Body, http.StatusOK
	}
	for k, v := range rec.Header() {
		w.Header()[k] = v
	}
	w.Header().Del("Content-Length")
	f.setStatus(ev, status)
	w.WriteHeader(status)
	w.Write(body)
}

func (f *Front) setStatus(ev *ReqEvent, s int) {
	f.mu.Lock()
	ev.Status = s
	f.mu.Unlock()
}

func (f *Front) servePublisher(w http.ResponseWriter, r *http.Request) {
	r2 := r.Clone(r.Context())
	if f.stripTo != "" {
		// libp2phttp strips the mount prefix; a publisher without its own server expects it
		r2.URL.Path = f.stripTo + strings.TrimPrefix(r.URL.Path, "/")
	}
	if f.legacy {
		// a legacy publisher knows nothing of /ipni/v1/ad: answers 404 there, serves at the root
		if strings.Contains(r.URL.Path, "/ipni/v1/ad") {
			http.Error(w, "not found", http.StatusNotFound)
			return
		}
		r2.URL.Path = "/ipni/v1/ad/" + strings.TrimPrefix(r.URL.Path, "/")
	}
	f.Pub.ServeHTTP(w, r2)
}
