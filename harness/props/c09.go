package props

import (
	"context"
	"fmt"
	"math/rand"
	"strings"
	"sync"
	"time"

	"github.com/anishathalye/porcupine"
	"github.com/ipfs/go-cid"
	"github.com/ipni/go-libipni/announce"
	"github.com/libp2p/go-libp2p/core/peer"
	"github.com/multiformats/go-multiaddr"
	"github.com/multiformats/go-multihash"

	"verif/harness/vf"
)

func init() { Registry["C09"] = runC09 }

// refLRU is the reference model of the duplicate filter: most recent first.
type refLRU struct {
	cap   int
	items []string
}

func (l *refLRU) update(s string) bool {
	for i, x := range l.items {
		if x == s {
			copy(l.items[1:i+1], l.items[:i])
			l.items[0] = s
			return true
		}
	}
	if len(l.items) == l.cap {
		l.items = l.items[:len(l.items)-1]
	}
	l.items = append([]string{s}, l.items...)
	return false
}

func (l *refLRU) remove(s string) bool {
	for i, x := range l.items {
		if x == s {
			l.items = append(l.items[:i], l.items[i+1:]...)
			return true
		}
	}
	return false
}

func (l *refLRU) clone() *refLRU { return &refLRU{cap: l.cap, items: append([]string(nil), l.items...)} }

func runC09(c *vf.Ctx) {
	c09LRUExhaustive(c)
	c09LRULong(c)
	c09Receiver(c)
	c09Concurrent(c)
	c09Pubsub(c)
}

// (1) all operation sequences up to length L over a 5-symbol alphabet, capacities 1..4
func c09LRUExhaustive(c *vf.Ctx) {
	const sub = "lru-exhaustive"
	if !c.Active(sub) {
		return
	}
	L := c.N(6, 7)
	syms := []string{"a", "b", "c", "d", "e"}
	nops := 2 * len(syms)
	total := 1
	for k := 0; k < L; k++ {
		total *= nops
	}
	// sequences of exactly length L cover all shorter ones as prefixes (checked op by op)
	idx := 0
	for capacity := 1; capacity <= 4; capacity++ {
		for seq := 0; seq < total; seq++ {
			i := idx
			idx++
			if !c.Mine(sub, i) {
				continue
			}
			if i%4096 == 0 {
				c.Cur(sub, i, fmt.Sprintf("cap=%d seq=%d", capacity, seq))
			}
			lru := announce.NewVerifLRU(capacity)
			ref := &refLRU{cap: capacity}
			x := seq
			var trace []string
			evictions, hits := 0, 0
			for k := 0; k < L; k++ {
				op := x % nops
				x /= nops
				s := syms[op%len(syms)]
				var got, want bool
				before := len(ref.items)
				if op < len(syms) {
					got, want = lru.Update(s), ref.update(s)
					trace = append(trace, "update("+s+")")
					if want {
						hits++
					} else if before == capacity {
						evictions++
					}
				} else {
					got, want = lru.Remove(s), ref.remove(s)
					trace = append(trace, "remove("+s+")")
				}
				if got != want || lru.Len() != len(ref.items) {
					c.Fail(sub, i, "lru-differs-from-model", fmt.Sprintf("capacity %d after %v: returned %v (model %v), len %d (model %d)", capacity, trace, got, want, lru.Len(), len(ref.items)),
						map[string]any{"capacity": capacity, "ops": trace})
					break
				}
			}
			c.Eval(1)
			if evictions > 0 && hits > 0 {
				c.Add("seqs_with_eviction_and_hit", 1)
			}
			if i%977 == 0 {
				c.Distinct(sub, fmt.Sprint(capacity), strings.Join(trace, ","))
			}
			if evictions > 1 && hits > 1 && c.WantSample(sub) {
				c.Sample(sub, map[string]any{"capacity": capacity, "ops": trace})
			}
		}
	}
	c.Add("lru_exhaustive_length", int64(L))
}

// long seeded sequences at capacities 1..4 and 64
func c09LRULong(c *vf.Ctx) {
	const sub = "lru-long"
	if !c.Active(sub) {
		return
	}
	n := c.N(40, 2000)
	for i := 0; i < n; i++ {
		if !c.Mine(sub, i) {
			continue
		}
		r := c.Rand(sub, i)
		capacity := []int{1, 2, 3, 4, 64}[r.Intn(5)]
		alpha := capacity + 1 + r.Intn(capacity+4)
		c.Cur(sub, i, fmt.Sprintf("cap=%d alpha=%d", capacity, alpha))
		lru := announce.NewVerifLRU(capacity)
		ref := &refLRU{cap: capacity}
		for k := 0; k < 10000; k++ {
			s := fmt.Sprint("s", r.Intn(alpha))
			var got, want bool
			var op string
			if r.Intn(5) == 0 {
				got, want, op = lru.Remove(s), ref.remove(s), "remove"
			} else {
				got, want, op = lru.Update(s), ref.update(s), "update"
			}
			if got != want || lru.Len() != len(ref.items) {
				c.Fail(sub, i, "lru-differs-from-model", fmt.Sprintf("capacity %d step %d %s(%s): returned %v (model %v), len %d (model %d)", capacity, k, op, s, got, want, lru.Len(), len(ref.items)), nil)
				break
			}
		}
		c.Eval(1)
		c.Distinct(sub, fmt.Sprint(capacity, alpha))
	}
}

// c09Cid: the k-th CID of the alphabet. All are distinct CIDs, but some share their digest with the neighbour
// (another codec, or the CIDv0 form): the duplicate filter is about CIDs, not digests.
func c09Cid(k int) cid.Cid {
	base, variant := k, 0
	switch {
	case k%4 == 3:
		base, variant = k-1, 1
	case k%16 == 9:
		base, variant = k-1, 2
	}
	mh, _ := multihash.Sum([]byte(fmt.Sprint("c09-cid-", base)), multihash.SHA2_256, -1)
	switch variant {
	case 1:
		return cid.NewCidV1(cid.DagCBOR, mh)
	case 2:
		return cid.NewCidV0(mh)
	}
	return cid.NewCidV1(cid.DagJSON, mh)
}

// marker address: unique per Direct call, public, survives filtering
func c09Marker(call int) multiaddr.Multiaddr {
	return multiaddr.StringCast(fmt.Sprintf("/ip4/9.%d.%d.%d/tcp/%d", 1+(call>>16)&0x7f, (call>>8)&0xff, call&0xff, 1+call%60000))
}

type c09Op struct {
	kind    string // direct | uncache
	cidIdx  int
	peerIdx int
	addrs   []labAddr
	call    int
}

// collector drains Next() into a slice until the receiver closes.
type collector struct {
	mu   sync.Mutex
	got  []announce.Announce
	done chan struct{}
}

func collect(rc *announce.Receiver) *collector {
	col := &collector{done: make(chan struct{})}
	go func() {
		defer close(col.done)
		for {
			a, err := rc.Next(context.Background())
			if err != nil {
				return
			}
			col.mu.Lock()
			col.got = append(col.got, a)
			col.mu.Unlock()
		}
	}()
	return col
}

func (col *collector) snapshot() []announce.Announce {
	col.mu.Lock()
	defer col.mu.Unlock()
	return append([]announce.Announce(nil), col.got...)
}

func markerOf(a announce.Announce) (int, bool) {
	for _, m := range a.Addrs {
		var x, y, z, p int
		if n, _ := fmt.Sscanf(m.String(), "/ip4/9.%d.%d.%d/tcp/%d", &x, &y, &z, &p); n == 4 && x >= 1 {
			call := (x-1)<<16 | y<<8 | z
			if c09Marker(call).Equal(m) {
				return call, true
			}
		}
	}
	return 0, false
}

// (2) sequential histories against the real Receiver
func c09Receiver(c *vf.Ctx) {
	const sub = "receiver-history"
	if !c.Active(sub) {
		return
	}
	n := c.N(200, 4000)
	peers := allIdents()
	peerIndex := map[peer.ID]int{}
	for k, p := range peers {
		peerIndex[p.ID] = k
	}
	for i := 0; i < n; i++ {
		if !c.Mine(sub, i) {
			continue
		}
		r := c.Rand(sub, i)
		nops := 300 + r.Intn(1700)
		alpha := announce.VerifAnnounceCacheSize + 2 + r.Intn(25)
		filterMode := r.Intn(3) // 0 allow all, 1 none, 2 predicate
		filterIPs := r.Intn(2) == 0
		allowed := func(p peer.ID) bool {
			switch filterMode {
			case 0:
				return true
			case 1:
				return false
			default:
				return peerIndex[p]%3 != 0
			}
		}
		c.Cur(sub, i, fmt.Sprintf("ops=%d alpha=%d filter=%d ips=%v", nops, alpha, filterMode, filterIPs))
		var opts []announce.Option
		if filterMode != 0 {
			opts = append(opts, announce.WithAllowPeer(allowed))
		}
		opts = append(opts, announce.WithFilterIPs(filterIPs))
		rc, err := announce.NewReceiver(nil, "", opts...)
		if err != nil {
			c.Fail(sub, i, "harness-receiver", err.Error(), nil)
			continue
		}
		col := collect(rc)
		ref := &refLRU{cap: announce.VerifAnnounceCacheSize}
		type expect struct {
			call    int
			cid     cid.Cid
			peer    peer.ID
			addrs   []labAddr
			reason  string
			deliver bool
			special bool // no marker among the addresses
		}
		var hist []expect
		specialByCid := map[string]int{}
		var cov struct{ evict, refresh, uncacheDeliver, rejectedThenDelivered, dupRejected int }
		uncached := map[int]bool{}
		rejectedCids := map[int]bool{}
		for k := 0; k < nops; k++ {
			ci := r.Intn(alpha)
			if r.Intn(3) == 0 && len(ref.items) > 0 { // bias towards recent ones
				ci = -1
			}
			var cd cid.Cid
			if ci < 0 {
				// re-announce something in the model's cache
				s := ref.items[r.Intn(len(ref.items))]
				for q := 0; q < alpha; q++ {
					if c09Cid(q).String() == s {
						ci = q
					}
				}
				if k0, special := specialByCid[s]; special {
					ci = 2_000_000 + k0
				}
			}
			cd = c09Cid(ci)
			if r.Intn(8) == 0 {
				rc.UncacheCid(cd)
				if ref.remove(cd.String()) {
					uncached[ci] = true
				}
				continue
			}
			p := peers[r.Intn(len(peers))]
			var labs []labAddr
			for a := r.Intn(4); a > 0; a-- {
				labs = append(labs, c20GenLabAddr(r))
			}
			addrs := []multiaddr.Multiaddr{c09Marker(k)}
			// one announcement in ten carries no address that is usable from outside (and no marker: it has a CID of
			// its own, by which its delivery is recognised)
			if r.Intn(10) == 0 {
				labs = labs[:0]
				for len(labs) < 1+k%3 {
					if l := c20GenLabAddr(r); l.class == "private" || l.class == "loopback" || l.class == "unspecified" {
						labs = append(labs, l)
					}
				}
				ci = 2_000_000 + k
				cd = c09Cid(ci)
				specialByCid[cd.String()] = k
				addrs = addrs[:0]
			}
			for _, l := range labs {
				addrs = append(addrs, l.ma)
			}
			r.Shuffle(len(addrs), func(x, y int) { addrs[x], addrs[y] = addrs[y], addrs[x] })
			ex := expect{call: k, cid: cd, peer: p.ID, addrs: labs, special: len(addrs) == len(labs)}
			if !allowed(p.ID) {
				ex.deliver, ex.reason = false, "peer not allowed"
				rejectedCids[ci] = true
			} else {
				before := len(ref.items)
				last := ""
				if before > 0 {
					last = ref.items[before-1]
				}
				if ref.update(cd.String()) {
					ex.deliver, ex.reason = false, "cid recently seen"
					cov.refresh++
					cov.dupRejected++
				} else {
					ex.deliver, ex.reason = true, "allowed and new"
					if before == ref.cap && last != "" {
						cov.evict++
					}
					if uncached[ci] {
						cov.uncacheDeliver++
						delete(uncached, ci)
					}
					if rejectedCids[ci] {
						cov.rejectedThenDelivered++
						delete(rejectedCids, ci)
					}
				}
			}
			hist = append(hist, ex)
			if err := rc.Direct(context.Background(), cd, peer.AddrInfo{ID: p.ID, Addrs: addrs}); err != nil {
				c.Fail(sub, i, "direct-error", err.Error(), nil)
			}
		}
		// sentinel: allowed peer, fresh cid; everything before it has been consumed when it shows up
		sentinelDelivered := false
		if filterMode != 1 {
			var sp Ident
			for _, p := range peers {
				if allowed(p.ID) {
					sp = p
					break
				}
			}
			_ = rc.Direct(context.Background(), c09Cid(1_000_000+i), peer.AddrInfo{ID: sp.ID, Addrs: []multiaddr.Multiaddr{c09Marker(nops + 5)}})
			deadline := time.Now().Add(30 * time.Second)
			for time.Now().Before(deadline) {
				g := col.snapshot()
				if len(g) > 0 {
					if m, ok := markerOf(g[len(g)-1]); ok && m == nops+5 {
						sentinelDelivered = true
						break
					}
				}
				time.Sleep(200 * time.Microsecond)
			}
			if !sentinelDelivered {
				c.Inconclusive(sub, i, "sentinel-not-seen", "the consumer did not observe the sentinel announcement", nil)
			}
		}
		rc.Close()
		<-col.done
		got := col.snapshot()
		if sentinelDelivered {
			got = got[:len(got)-1]
		}
		// compare
		gotBy := map[int]announce.Announce{}
		var order []int
		for _, g := range got {
			m, ok := markerOf(g)
			if k, special := specialByCid[g.Cid.String()]; special && !ok {
				m, ok = k, true
			}
			if !ok {
				c.Fail(sub, i, "delivered-without-marker", fmt.Sprint(g), nil)
				continue
			}
			if _, dup := gotBy[m]; dup {
				c.Fail(sub, i, "delivered-twice", fmt.Sprintf("call %d", m), nil)
			}
			gotBy[m] = g
			order = append(order, m)
		}
		for k := 1; k < len(order); k++ {
			if order[k] < order[k-1] {
				c.Fail(sub, i, "delivery-order", fmt.Sprint(order[k-1], order[k]), nil)
				break
			}
		}
		for _, ex := range hist {
			g, delivered := gotBy[ex.call]
			wit := func() any {
				return map[string]any{"call": ex.call, "cid": ex.cid.String(), "peer": ex.peer.String(), "expected_delivery": ex.deliver, "reason": ex.reason,
					"filter_mode": filterMode, "filter_ips": filterIPs, "ops": nops, "alphabet": alpha}
			}
			if delivered != ex.deliver {
				key := "not-delivered-although-" + strings.ReplaceAll(ex.reason, " ", "-")
				if delivered {
					key = "delivered-although-" + strings.ReplaceAll(ex.reason, " ", "-")
				}
				c.Fail(sub, i, key, fmt.Sprintf("call %d cid #%s", ex.call, ex.cid), wit())
				break // later outcomes depend on this one
			}
			if !delivered {
				continue
			}
			if !g.Cid.Equals(ex.cid) || g.PeerID != ex.peer {
				c.Fail(sub, i, "delivered-message-altered", fmt.Sprintf("%s/%s vs %s/%s", g.Cid, g.PeerID, ex.cid, ex.peer), wit())
			}
			// addresses
			want := map[string]int{c09Marker(ex.call).String(): 1}
			if ex.special {
				want = map[string]int{}
				c.Inc("delivered_announcements_without_any_public_address")
			}
			for _, l := range ex.addrs {
				if !filterIPs || l.class == "public" || l.class == "dns" {
					want[l.ma.String()]++
				}
			}
			gotA := map[string]int{}
			for _, a := range g.Addrs {
				gotA[a.String()]++
			}
			if fmt.Sprint(want) != fmt.Sprint(gotA) {
				key := "delivered-addresses-differ"
				for _, l := range ex.addrs {
					if filterIPs && l.class != "public" && l.class != "dns" && gotA[l.ma.String()] > 0 {
						key = "delivered-" + l.class + "-address-despite-filter"
					}
				}
				c.Fail(sub, i, key, fmt.Sprintf("got %v want %v", gotA, want), wit())
			}
		}
		c.Eval(len(hist))
		c.Add("evictions", int64(cov.evict))
		c.Add("refresh_on_hit", int64(cov.refresh))
		c.Add("uncache_then_delivered", int64(cov.uncacheDeliver))
		c.Add("rejected_then_delivered", int64(cov.rejectedThenDelivered))
		c.Add("delivered", int64(len(got)))
		c.Distinct(sub, fmt.Sprint(filterMode, filterIPs, alpha, nops/200))
		if c.WantSample(sub) {
			c.Sample(sub, map[string]any{"ops": nops, "cid_alphabet": alpha, "filter_mode": filterMode, "filter_ips": filterIPs, "delivered": len(got), "evictions": cov.evict, "refresh_on_hit": cov.refresh})
		}
	}
}

// (3) concurrent clients, checked with porcupine against the same model
type c09In struct {
	Kind    string // direct | uncache
	Cid     string
	Allowed bool
}

func c09Model(capacity int) porcupine.Model {
	return porcupine.Model{
		Init: func() any { return &refLRU{cap: capacity} },
		Step: func(st, in, out any) (bool, any) {
			l := st.(*refLRU).clone()
			i := in.(c09In)
			if i.Kind == "uncache" {
				l.remove(i.Cid)
				return true, l
			}
			if !i.Allowed {
				return out.(bool) == false, l
			}
			seen := l.update(i.Cid)
			return out.(bool) == !seen, l
		},
		Equal: func(a, b any) bool {
			return strings.Join(a.(*refLRU).items, ",") == strings.Join(b.(*refLRU).items, ",")
		},
		DescribeOperation: func(in, out any) string { return fmt.Sprintf("%+v -> delivered=%v", in, out) },
	}
}

func c09Concurrent(c *vf.Ctx) {
	const sub = "receiver-concurrent"
	if !c.Active(sub) {
		return
	}
	n := c.N(30, 600)
	peers := allIdents()
	for i := 0; i < n; i++ {
		if !c.Mine(sub, i) {
			continue
		}
		r := c.Rand(sub, i)
		c.Cur(sub, i, "")
		peerIndex := map[peer.ID]int{}
		for k, p := range peers {
			peerIndex[p.ID] = k
		}
		allowed := func(p peer.ID) bool { return peerIndex[p]%4 != 0 }
		rc, err := announce.NewReceiver(nil, "", announce.WithAllowPeer(allowed))
		if err != nil {
			continue
		}
		col := collect(rc)
		// pre-fill the cache so that evictions happen within a short history
		pre := announce.VerifAnnounceCacheSize - 2
		var okPeer Ident
		for _, p := range peers {
			if allowed(p.ID) {
				okPeer = p
				break
			}
		}
		var ops []porcupine.Operation
		clock := func() int64 { return c.Tick() }
		for k := 0; k < pre; k++ {
			t0 := clock()
			_ = rc.Direct(context.Background(), c09Cid(5000+k), peer.AddrInfo{ID: okPeer.ID, Addrs: []multiaddr.Multiaddr{c09Marker(5000 + k)}})
			ops = append(ops, porcupine.Operation{ClientId: 0, Input: c09In{"direct", c09Cid(5000 + k).String(), true}, Call: t0, Output: true, Return: clock()})
		}
		const clients, per = 3, 12
		type pend struct {
			op   porcupine.Operation
			call int
		}
		var mu sync.Mutex
		var pends []pend
		var wg sync.WaitGroup
		for cl := 0; cl < clients; cl++ {
			wg.Add(1)
			rr := rand.New(rand.NewSource(r.Int63()))
			go func(cl int) {
				defer wg.Done()
				for k := 0; k < per; k++ {
					ci := rr.Intn(6)
					if rr.Intn(3) == 0 {
						ci = 5000 + rr.Intn(4) // oldest pre-filled ones: about to be evicted
					}
					cd := c09Cid(ci)
					call := 100 + cl*per + k
					if rr.Intn(5) == 0 {
						t0 := clock()
						rc.UncacheCid(cd)
						t1 := clock()
						mu.Lock()
						pends = append(pends, pend{porcupine.Operation{ClientId: cl, Input: c09In{"uncache", cd.String(), true}, Call: t0, Output: false, Return: t1}, -1})
						mu.Unlock()
						continue
					}
					p := peers[rr.Intn(len(peers))]
					t0 := clock()
					_ = rc.Direct(context.Background(), cd, peer.AddrInfo{ID: p.ID, Addrs: []multiaddr.Multiaddr{c09Marker(call)}})
					t1 := clock()
					mu.Lock()
					pends = append(pends, pend{porcupine.Operation{ClientId: cl, Input: c09In{"direct", cd.String(), allowed(p.ID)}, Call: t0, Return: t1}, call})
					mu.Unlock()
				}
			}(cl)
		}
		wg.Wait()
		// sentinel
		_ = rc.Direct(context.Background(), c09Cid(9_000_000+i), peer.AddrInfo{ID: okPeer.ID, Addrs: []multiaddr.Multiaddr{c09Marker(99999)}})
		deadline := time.Now().Add(30 * time.Second)
		seen := false
		for time.Now().Before(deadline) && !seen {
			g := col.snapshot()
			if len(g) > 0 {
				if m, ok := markerOf(g[len(g)-1]); ok && m == 99999 {
					seen = true
				}
			}
			time.Sleep(200 * time.Microsecond)
		}
		rc.Close()
		<-col.done
		if !seen {
			c.Inconclusive(sub, i, "sentinel-not-seen", "", nil)
			continue
		}
		delivered := map[int]bool{}
		for _, g := range col.snapshot() {
			if m, ok := markerOf(g); ok {
				delivered[m] = true
			}
		}
		nDel := 0
		for _, p := range pends {
			op := p.op
			if p.call >= 0 {
				op.Output = delivered[p.call]
				if delivered[p.call] {
					nDel++
				}
			}
			ops = append(ops, op)
		}
		res, _ := porcupine.CheckOperationsVerbose(c09Model(announce.VerifAnnounceCacheSize), ops, 60*time.Second)
		switch res {
		case porcupine.Illegal:
			var desc []string
			for _, o := range ops[pre:] {
				desc = append(desc, fmt.Sprintf("client %d [%d,%d] %+v -> %v", o.ClientId, o.Call, o.Return, o.Input, o.Output))
			}
			c.Fail(sub, i, "history-not-linearizable", "no sequential order of the calls explains which announcements were delivered", map[string]any{"history_after_prefill": desc})
		case porcupine.Unknown:
			c.Inconclusive(sub, i, "porcupine-timeout", "", nil)
		}
		c.Eval(len(ops))
		c.Add("concurrent_histories", 1)
		c.Add("concurrent_delivered", int64(nDel))
		c.DistinctIn("concurrent_outcomes", fmt.Sprint(delivered))
		c.Distinct(sub, fmt.Sprint(i))
	}
}
