package props

import (
	"github.com/multiformats/go-multiaddr"
	"context"
	"fmt"
	"math/rand"
	"sort"
	"strings"
	"sync"
	"sync/atomic"
	"time"

	"github.com/ipfs/go-cid"
	"github.com/ipni/go-libipni/dagsync"
	"github.com/libp2p/go-libp2p/core/peer"
	"github.com/multiformats/go-multihash"

	"verif/harness/vf"
)

func init() { Registry["C14"] = runC14 }

type c14Listener struct {
	id        int
	behaviour string // fast | slow | stalled | cancel-after-n | cancel-then-read | late
	ch        <-chan dagsync.SyncFinished
	cancel    context.CancelFunc
	regCall   int64
	regRet    int64
	cancelAt  int64 // tick right before cancel() was called (0 = never)
	cancelRet int64
	mu        sync.Mutex
	got       []dagsync.SyncFinished
	gotT      []int64
	closed    bool
	release   chan struct{} // stalled readers wait for this
	done      chan struct{}
	n         int
}

type c14Emit struct {
	begin, end int64
	fwd        int64 // dist.forward tick (0 = never forwarded)
	peer       peer.ID
	cid        cid.Cid
	g          int
}

func runC14(c *vf.Ctx) {
	const sub = "listeners"
	if !c.Active(sub) {
		return
	}
	n := c.N(160, 5000)
	ids := allIdents()
	for i := 0; i < n; i++ {
		if !c.Mine(sub, i) {
			continue
		}
		r := c.Rand(sub, i)
		c14One(c, sub, i, r, ids)
	}
}

func c14One(c *vf.Ctx, sub string, i int, r *rand.Rand, ids []Ident) {
	npub := 1 + r.Intn(3)
	many := r.Intn(5) == 0 // long runs: enough events to overflow any bounded per-listener queue
	rounds := 3 + r.Intn(6)
	if many {
		rounds = 75 + r.Intn(40)
		npub = 1
	}
	nlist := r.Intn(6)
	if many && nlist < 3 {
		nlist = 3
	}
	delay := []int{0, 100, 400}[r.Intn(3)]
	closeAtEnd := r.Intn(2) == 0
	seg := int64(0)
	if r.Intn(3) == 0 {
		seg = int64(1 + r.Intn(2)) // segmented syncs: the count of a notification spans all segments
	}
	entriesToo := !many && r.Intn(3) == 0
	twoExplicit := !many && r.Intn(3) == 0 // a second goroutine syncs the same publishers explicitly at the same time
	overlap := []string{"", "", "explicit", "announce"}[r.Intn(4)]
	if many {
		overlap = ""
	}
	desc := fmt.Sprintf("publishers=%d rounds=%d listeners=%d tap-delay=%d/1000 close-with-stalled-readers=%v segment-depth=%d concurrent-explicit-syncs-of-one-publisher=%v held-notification-overlap=%q entries-syncs=%v", npub, rounds, nlist, delay, closeAtEnd, seg, twoExplicit, overlap, entriesToo)
	c.Cur(sub, i, desc)
	pubs := make([]*c08Pub, npub)
	byID := map[peer.ID]*c08Pub{}
	for x := range pubs {
		p := &c08Pub{id: ids[(i*3+x)%len(ids)], st: NewStore()}
		for byID[p.id.ID] != nil {
			p.id = ids[r.Intn(len(ids))]
		}
		var err error
		p.chain, err = NewChain(r, p.st, 1, p.id.ID, linkProto(multihash.SHA2_256, -1))
		if err == nil {
			p.front, err = NewFront(c, p.id, p.st, MountPlain, "")
		}
		if err != nil {
			c.Fail(sub, i, "harness-env", err.Error(), nil)
			return
		}
		defer p.front.Close()
		p.front.Pub.SetRoot(p.chain.Head())
		pubs[x], byID[p.id.ID] = p, p
	}
	tl := installTap(c, r.Int63(), delay)
	defer tl.uninstall()
	dst := NewStore()
	var hookCount sync.Map // goroutine id -> *atomic.Int64 (hooks since its last sync.enter)
	prevHook := adPrevHook(dst, &hookLog{})
	var cancelByG sync.Map // goroutine id -> context.CancelFunc of the explicit sync it is running
	hook := func(p peer.ID, cd cid.Cid, act dagsync.SegmentSyncActions) {
		v, _ := hookCount.LoadOrStore(goroutineID(), new(atomic.Int64))
		v.(*atomic.Int64).Add(1)
		prevHook(p, cd, act) // tells a segmented sync where to continue
		// the caller of an explicit sync may give up while the blocks are being reported: a sync that completes
		// all the same is notified like any other
		if fn, ok := cancelByG.LoadAndDelete(goroutineID()); ok {
			fn.(context.CancelFunc)()
			c.Inc("explicit_syncs_whose_context_ended_while_blocks_were_reported")
		}
	}
	sopts := []dagsync.Option{dagsync.RecvAnnounce(""), dagsync.BlockHook(hook)}
	shortTimeout := i%3 == 0 && !many
	stallForever := make(chan struct{})
	defer close(stallForever)
	if shortTimeout {
		sopts = append(sopts, dagsync.HttpTimeout(300*time.Millisecond))
	}
	if seg > 0 {
		sopts = append(sopts, dagsync.SegmentDepthLimit(seg))
	}
	s, err := newSubscriber(dst, sopts...)
	if err != nil {
		c.Fail(sub, i, "harness-subscriber", err.Error(), nil)
		return
	}
	// expected Count of each emission: hooks seen by the syncing goroutine between sync.enter and sync.exit
	var cmu sync.Mutex
	counts := map[string][]int{} // peer|cid -> hook counts of the syncs that sent a notification for it, in order
	var lastCount sync.Map       // goroutine id -> hook count of its last finished sync
	var enterCid sync.Map      // goroutine id -> head cid seen at sync.enter
	var enterN sync.Map        // goroutine id -> *atomic.Int64: syncs entered by that goroutine
	tl.onPoint = func(point string, p peer.ID, cd cid.Cid) cid.Cid {
		switch point {
		case "sync.enter":
			v, _ := hookCount.LoadOrStore(goroutineID(), new(atomic.Int64))
			v.(*atomic.Int64).Store(0)
			enterCid.Store(goroutineID(), cd) // the head being synced (sync.exit reports the last segment's root)
			en, _ := enterN.LoadOrStore(goroutineID(), new(atomic.Int64))
			en.(*atomic.Int64).Add(1)
		case "sync.exit":
			if v, ok := hookCount.Load(goroutineID()); ok {
				lastCount.Store(goroutineID(), int(v.(*atomic.Int64).Load()))
			}
		case "event.emit.begin":
			// the notification is sent by the goroutine that ran the sync
			if v, ok := lastCount.Load(goroutineID()); ok {
				cmu.Lock()
				counts[string(p)+"|"+cd.String()] = append(counts[string(p)+"|"+cd.String()], v.(int))
				cmu.Unlock()
			}
		}
		return cid.Undef
	}
	var listeners []*c14Listener
	var lmu sync.Mutex
	addListener := func(beh string) *c14Listener {
		l := &c14Listener{behaviour: beh, release: make(chan struct{}), done: make(chan struct{})}
		l.regCall = tl.mark("client.listen.call", "", cid.Undef)
		l.ch, l.cancel = s.OnSyncFinished()
		l.regRet = tl.mark("client.listen.ret", "", cid.Undef)
		l.n = 1 + r.Intn(4)
		lmu.Lock()
		l.id = len(listeners)
		listeners = append(listeners, l)
		lmu.Unlock()
		go l.run(c, tl)
		return l
	}
	behaviours := []string{"fast", "slow", "stalled", "cancel-after-n", "cancel-then-read", "late", "cancel-immediately", "read-some-then-stall"}
	var late []string
	for x := 0; x < nlist; x++ {
		b := behaviours[r.Intn(len(behaviours))]
		if many && x == 0 {
			b = "stalled"
		}
		if many && x == 1 {
			b = "fast"
		}
		if many && x == 2 {
			b = "read-some-then-stall"
		}
		if b == "late" {
			late = append(late, b)
			continue
		}
		l := addListener(b)
		if b == "cancel-immediately" {
			l.doCancel(tl)
		}
	}
	// workers: explicit syncs and announcements (some failing) per publisher
	var wg sync.WaitGroup
	var explicitOK atomic.Int64 // explicit queried-head syncs that ran a sync and returned success
	var resyncSeq atomic.Int64
	explicitSync := func(p *c08Pub) {
		en, _ := enterN.LoadOrStore(goroutineID(), new(atomic.Int64))
		before := en.(*atomic.Int64).Load()
		// one call in four is a resync of the whole chain up to the queried head, or a sync with an explicit older
		// stop advertisement: they complete, record the (possibly unchanged) head as latest and notify like any other
		var so []dagsync.SyncOption
		switch resyncSeq.Add(1) % 8 {
		case 3:
			so = append(so, dagsync.WithAdsResync(true))
			c.Inc("explicit_resyncs")
		case 7:
			p.mu.Lock()
			stop := p.chain.Cids[0]
			p.mu.Unlock()
			so = append(so, dagsync.WithStopAdCid(stop))
			c.Inc("explicit_syncs_with_stop_cid")
		}
		ctx, cancel := context.WithCancel(context.Background())
		defer cancel()
		if n := resyncSeq.Load() % 8; n == 1 || n == 5 {
			cancelByG.Store(goroutineID(), cancel)
			defer cancelByG.Delete(goroutineID())
		}
		if got, err := s.SyncAdChain(ctx, p.front.AddrInfo(), so...); err == nil && got.Defined() && en.(*atomic.Int64).Load() > before {
			explicitOK.Add(1)
		}
	}
	for _, p := range pubs {
		wg.Add(1)
		rr := rand.New(rand.NewSource(r.Int63()))
		go func(p *c08Pub) {
			defer wg.Done()
			for rd := 0; rd < rounds; rd++ {
				p.mu.Lock()
				_ = ExtendChain(rr, p.st, p.chain, 1+rr.Intn(3), p.id.ID)
				h := p.chain.Head()
				p.front.Pub.SetRoot(h)
				p.mu.Unlock()
				switch rr.Intn(4) {
				case 0, 1: // explicit sync with queried head
					explicitSync(p)
				case 2: // announcement
					if rr.Intn(5) == 0 {
						// ... that names an address no sync client can be made from: a failed announce-triggered sync
						// (one error notification), followed by the same head with the real address
						_ = s.Announce(context.Background(), h, peer.AddrInfo{ID: p.id.ID, Addrs: []multiaddr.Multiaddr{multiaddr.StringCast("/ip4/127.0.0.1/tcp/1")}})
						c.Inc("announcements_with_an_unusable_address")
					}
					_ = s.Announce(context.Background(), h, p.front.AddrInfo())
				default: // announcement whose sync fails (404 on the head block): one error notification
					bad := h.String()
					hold := time.Duration(0)
					if rr.Intn(2) == 0 {
						hold = time.Duration(200+rr.Intn(2500)) * time.Microsecond // newer announcements queue up behind it
					}
					// (in runs with a short HTTP timeout some of these syncs fail because the publisher does not answer in
					// time: the error then is a deadline error, and the notification is due all the same)
					stalls := shortTimeout && rr.Intn(2) == 0
					if stalls {
						c.Inc("announce_syncs_failing_by_http_timeout")
					}
					p.front.SetPlan(func(ev ReqEvent) *Fault {
						if ev.Rsrc == bad && ev.Occur == 0 && stalls {
							return &Fault{Stall: stallForever, Label: "no answer"}
						}
						if ev.Rsrc == bad && ev.Occur == 0 {
							f := &Fault{Status: 500, Label: "injected"} // only the first request for it fails
							if hold > 0 {
								f.Gate = closedAfter(hold)
							}
							return f
						}
						return nil
					})
					_ = s.Announce(context.Background(), h, p.front.AddrInfo())
					if hold > 0 && rr.Intn(2) == 0 {
						// a newer head is announced while the failing sync is (probably) still running
						p.mu.Lock()
						_ = ExtendChain(rr, p.st, p.chain, 1, p.id.ID)
						h2 := p.chain.Head()
						p.front.Pub.SetRoot(h2)
						p.mu.Unlock()
						_ = s.Announce(context.Background(), h2, p.front.AddrInfo())
					}
				}
				if rr.Intn(3) == 0 {
					time.Sleep(time.Duration(rr.Intn(800)) * time.Microsecond)
				}
			}
		}(p)
	}
	if twoExplicit {
		for _, p := range pubs {
			wg.Add(1)
			rr := rand.New(rand.NewSource(r.Int63()))
			go func(p *c08Pub) {
				defer wg.Done()
				for rd := 0; rd < rounds; rd++ {
					explicitSync(p)
					time.Sleep(time.Duration(rr.Intn(600)) * time.Microsecond)
				}
			}(p)
		}
	}
	if entriesToo {
		// entries syncs of the same publishers, with a hook scoped to the call: they share the per-publisher lock and
		// the per-publisher hook slot with the ad syncs whose block counts the notifications carry
		for _, p := range pubs {
			wg.Add(1)
			rr := rand.New(rand.NewSource(r.Int63()))
			go func(p *c08Pub) {
				defer wg.Done()
				for e := 0; e < 2+rr.Intn(4); e++ {
					time.Sleep(time.Duration(rr.Intn(1500)) * time.Microsecond)
					ech, err := NewEntryChain(rr, p.st, 1+rr.Intn(3), linkProto(multihash.SHA2_256, -1))
					if err != nil {
						return
					}
					_ = s.SyncEntries(context.Background(), p.front.AddrInfo(), ech.Head(), dagsync.ScopedBlockHook(func(peer.ID, cid.Cid, dagsync.SegmentSyncActions) {}))
					c.Inc("entries_syncs_of_the_same_publishers")
				}
			}(p)
		}
	}
	// listener churn while syncs complete
	wg.Add(1)
	go func() {
		defer wg.Done()
		rr := rand.New(rand.NewSource(r.Int63()))
		for range late {
			time.Sleep(time.Duration(rr.Intn(3000)) * time.Microsecond)
			addListener("fast")
		}
	}()
	// the syncs must complete while stalled listeners are not reading: decided by the hang rule, not by elapsed time
	verdict, dump := vf.Watch(60*time.Second, wg.Wait)
	wit := func() any { return map[string]any{"config": desc} }
	if verdict != vf.Returned {
		key := "syncs-did-not-complete-while-listeners-stalled"
		c.Fail(sub, i, key+":"+vf.LibFrame(dump), fmt.Sprintf("with %d listeners (some not reading) the sync workers did not finish; blocked goroutine:\n%s", nlist, dump), wit())
		for _, l := range listeners {
			close(l.release)
		}
		s.Close()
		return
	}
	// announce-triggered syncs finish asynchronously: logical quiescence
	quiesce := func() {
		// (conditions are evaluated on one snapshot of the counters, and must hold twice a moment apart with nothing
		// logged in between; the deadline runs from the last progress seen)
		lastTotal, lastProgress := -1, time.Now()
		for time.Since(lastProgress) < 60*time.Second {
			n, total := tl.snapshot()
			if total != lastTotal {
				lastTotal, lastProgress = total, time.Now()
			}
			if n["watch.recv"] == n["watch.swap.spawn"]+n["watch.swap.replaced"] &&
				n["async.enter"] == n["async.exit"] && n["watch.swap.spawn"] == n["async.enter"] && n["event.emit.begin"] == n["event.emit.end"] {
				time.Sleep(time.Millisecond)
				if _, total2 := tl.snapshot(); total2 == total {
					break
				}
				continue
			}
			time.Sleep(500 * time.Microsecond)
		}
		// the distributor has forwarded everything emitted? (a bounded wait, not a verdict: what each listener had to
		// receive is decided from the log afterwards)
		fdl := time.Now().Add(30 * time.Second)
		for time.Now().Before(fdl) && tl.count("dist.forward") < tl.count("event.emit.end") {
			time.Sleep(200 * time.Microsecond)
		}
	}
	quiesce()
	if overlap != "" {
		// One sync of a publisher is held at the point where it hands over its notification; a second sync of the
		// same publisher, for a newer head, is started meanwhile. Whatever the second one does, the notifications
		// must arrive in the order in which the two syncs completed (checked offline through a fast listener).
		p := pubs[0]
		addListener("fast")
		p.front.SetPlan(nil)
		p.mu.Lock()
		_ = ExtendChain(r, p.st, p.chain, 1, p.id.ID)
		p.front.Pub.SetRoot(p.chain.Head())
		p.mu.Unlock()
		reached, release := tl.gateOnce("event.emit.begin")
		aDone := make(chan struct{})
		go func() {
			defer close(aDone)
			explicitSync(p)
		}()
		bDone := make(chan struct{})
		select {
		case <-reached:
			p.mu.Lock()
			_ = ExtendChain(r, p.st, p.chain, 1, p.id.ID)
			h2 := p.chain.Head()
			p.front.Pub.SetRoot(h2)
			p.mu.Unlock()
			before := tl.count("event.emit.end")
			go func() {
				defer close(bDone)
				if overlap == "explicit" {
					explicitSync(p)
				} else {
					_ = s.Announce(context.Background(), h2, p.front.AddrInfo())
				}
			}()
			// (bounded wait only: in a correct subscriber the second sync cannot finish before the first is released)
			for w := 0; w < 80; w++ {
				if tl.count("event.emit.end") > before {
					c.Inc("second_sync_notified_while_first_was_held")
					break
				}
				time.Sleep(500 * time.Microsecond)
			}
			c.Inc("held_notification_overlap_runs")
		case <-aDone:
			close(bDone) // the first sync did not get as far as a notification
		case <-time.After(30 * time.Second):
			close(bDone)
		}
		release()
		ov, od := vf.Watch(60*time.Second, func() { <-aDone; <-bDone })
		if ov != vf.Returned {
			c.Fail(sub, i, "syncs-did-not-complete-after-held-notification:"+vf.LibFrame(od), od, nil)
			for _, l := range listeners {
				close(l.release)
			}
			s.Close()
			return
		}
		quiesce()
	}
	lmu.Lock()
	ls := append([]*c14Listener(nil), listeners...)
	lmu.Unlock()
	// end of the run: either the subscriber is closed with stalled readers still holding their backlog, or every
	// remaining listener is cancelled; then the stalled readers are released and must find their backlog
	endTick := tl.mark("client.end", "", cid.Undef)
	_ = endTick
	if closeAtEnd {
		// in half of these runs one more explicit sync is held at its very end while Close starts: Close lets it
		// finish, and the notification it then sends is one every listener still registered has to get
		release := func() {}
		lastDone := make(chan struct{})
		if i%2 == 0 {
			p := pubs[0]
			p.front.SetPlan(nil)
			p.mu.Lock()
			_ = ExtendChain(r, p.st, p.chain, 1, p.id.ID)
			p.front.Pub.SetRoot(p.chain.Head())
			p.mu.Unlock()
			var reached <-chan struct{}
			reached, release = tl.gateOnce("sync.exit")
			go func() {
				defer close(lastDone)
				explicitSync(p)
			}()
			select {
			case <-reached:
				c.Inc("syncs_finishing_while_close_is_under_way")
			case <-lastDone:
			case <-time.After(30 * time.Second):
			}
			go func() {
				for w := 0; w < 20000 && tl.count("close.begin") == 0; w++ {
					time.Sleep(500 * time.Microsecond)
				}
				time.Sleep(time.Millisecond)
				release()
			}()
		} else {
			close(lastDone)
		}
		cv, cd := vf.Watch(60*time.Second, func() { s.Close() })
		release()
		if lv, ld := vf.Watch(60*time.Second, func() { <-lastDone }); lv != vf.Returned {
			c.Fail(sub, i, "sync-held-at-its-end-did-not-complete-during-close:"+vf.LibFrame(ld), ld, wit())
			return
		}
		if cv != vf.Returned {
			c.Fail(sub, i, "close-blocked-by-listeners:"+vf.LibFrame(cd), cd, wit())
			return
		}
	} else {
		for _, l := range ls {
			l.doCancel(tl)
		}
	}
	for _, l := range ls {
		close(l.release)
	}
	for _, l := range ls {
		select {
		case <-l.done:
		case <-time.After(60 * time.Second):
			c.Fail(sub, i, "listener-channel-not-closed", fmt.Sprintf("listener %d (%s): channel still open after cancel/Close", l.id, l.behaviour), wit())
			s.Close()
			return
		}
	}
	if !closeAtEnd {
		s.Close()
	}
	// ---- offline ------------------------------------------------------------------------------------------
	log := tl.events()
	sort.Slice(log, func(a, b int) bool { return log[a].T < log[b].T })
	var emits []*c14Emit
	pendingByG := map[int]*c14Emit{}
	var fwdQueue []*c14Emit
	for _, e := range log {
		switch e.Point {
		case "event.emit.begin":
			em := &c14Emit{begin: e.T, peer: e.Peer, cid: e.Cid, g: e.G}
			emits = append(emits, em)
			pendingByG[e.G] = em
			fwdQueue = append(fwdQueue, em)
		case "event.emit.end":
			if em := pendingByG[e.G]; em != nil {
				em.end = e.T
			}
		case "dist.forward":
			// forwarded in the order of the hand-off; match by (peer, cid) among not yet forwarded emissions
			for _, em := range fwdQueue {
				if em.fwd == 0 && em.peer == e.Peer && em.cid.Equals(e.Cid) {
					em.fwd = e.T
					break
				}
			}
		}
	}
	// every announce-triggered sync that ran (succeeded or failed) produced exactly one notification
	type asyncSt struct {
		taken, entered bool
		emits          int
		head           cid.Cid
		peer           peer.ID
	}
	ast := map[int]*asyncSt{}
	explicitEmits := int64(0)
	for _, e := range log {
		switch e.Point {
		case "pending.taken":
			ast[e.G] = &asyncSt{taken: true, head: e.Cid, peer: e.Peer}
		case "sync.enter":
			if a := ast[e.G]; a != nil {
				a.entered = true
			}
		case "event.emit.begin":
			if a := ast[e.G]; a != nil {
				a.emits++
				// the notification of an announce-triggered sync carries the head that sync was for (the
				// announcement it took), whatever announcement the goroutine was started for
				if a.head.Defined() && !e.Cid.Equals(a.head) {
					c.Fail(sub, i, "announce-sync-notification-names-another-head", fmt.Sprintf("publisher %s: the handling goroutine took the announcement of head #%d and sent a notification for head #%d", short(a.peer), byID[a.peer].chain.Pos(a.head), byID[a.peer].chain.Pos(e.Cid)), wit())
				}
			} else {
				explicitEmits++
			}
		case "async.exit":
			if a := ast[e.G]; a != nil && !a.entered && a.emits > 1 {
				c.Fail(sub, i, "announce-triggered-sync-produced-several-notifications", fmt.Sprintf("publisher %s head #%d: the handling goroutine could not start a sync and sent %d notifications", short(a.peer), byID[a.peer].chain.Pos(a.head), a.emits), wit())
			}
			if a := ast[e.G]; a != nil && a.entered {
				c.Inc("announce_triggered_syncs_checked")
				if a.emits != 1 {
					key := "announce-triggered-sync-produced-no-notification"
					if a.emits > 1 {
						key = "announce-triggered-sync-produced-several-notifications"
					}
					c.Fail(sub, i, key, fmt.Sprintf("publisher %s head #%d: the handling goroutine ran a sync and sent %d notifications", short(a.peer), byID[a.peer].chain.Pos(a.head), a.emits), wit())
				}
			}
			delete(ast, e.G)
		}
	}
	// one notification per completed explicit queried-head sync (+ announce-triggered completions)
	if explicitEmits != explicitOK.Load() {
		c.Fail(sub, i, "notifications-differ-from-completed-explicit-syncs", fmt.Sprintf("%d notifications sent by explicit syncs, %d explicit syncs ran and returned success", explicitEmits, explicitOK.Load()), wit())
	}
	c.Add("explicit_syncs_completed", explicitOK.Load())
	for _, l := range ls {
		l.mu.Lock()
		got := append([]dagsync.SyncFinished(nil), l.got...)
		l.mu.Unlock()
		used := map[*c14Emit]bool{}
		lastIdx := map[peer.ID]int{}
		ordinal := map[*c14Emit]int{} // position among the emissions with the same (publisher, cid)
		ordN := map[string]int{}
		for _, em := range emits {
			k := string(em.peer) + "|" + em.cid.String()
			ordinal[em] = ordN[k]
			ordN[k]++
		}
		lw := func() any {
			var gs []string
			for _, g := range got {
				gs = append(gs, fmt.Sprintf("%s#%d err=%v count=%d", short(g.PeerID), byID[g.PeerID].chain.Pos(g.Cid), g.Err != nil, g.Count))
			}
			var es []string
			for _, em := range emits {
				es = append(es, fmt.Sprintf("[%d..%d fwd@%d] %s#%d", em.begin, em.end, em.fwd, short(em.peer), byID[em.peer].chain.Pos(em.cid)))
			}
			return map[string]any{"config": desc, "listener": fmt.Sprintf("%d %s registered [%d,%d] cancel called at %d", l.id, l.behaviour, l.regCall, l.regRet, l.cancelAt), "received": gs, "emitted": es}
		}
		for _, g := range got {
			// find the emission this corresponds to: first unused with same peer, cid, in emission order
			// (the same head can be notified more than once — resyncs, syncs with an explicit stop: a listener that
			// registered late received the later ones, so emissions forwarded before it registered are not candidates,
			// nor are emissions older than the last one matched for this publisher)
			idx := -1
			for x, em := range emits {
				if !used[em] && em.peer == g.PeerID && em.cid.Equals(g.Cid) && x >= lastIdx[g.PeerID] && (em.fwd == 0 || em.fwd > l.regCall) {
					idx = x
					break
				}
			}
			if idx < 0 {
				for x, em := range emits {
					if !used[em] && em.peer == g.PeerID && em.cid.Equals(g.Cid) {
						idx = x
						break
					}
				}
			}
			if idx < 0 {
				dup := false
				for _, em := range emits {
					if em.peer == g.PeerID && em.cid.Equals(g.Cid) {
						dup = true
					}
				}
				key := "listener-received-event-never-emitted"
				if dup {
					key = "listener-received-event-twice"
				}
				c.Fail(sub, i, key, fmt.Sprintf("listener %d (%s)", l.id, l.behaviour), lw())
				break
			}
			em := emits[idx]
			used[em] = true
			if idx < lastIdx[g.PeerID] {
				c.Fail(sub, i, "listener-received-events-out-of-order", fmt.Sprintf("listener %d (%s)", l.id, l.behaviour), lw())
				break
			}
			lastIdx[g.PeerID] = idx
			if g.Err == nil {
				cmu.Lock()
				cl := counts[string(g.PeerID)+"|"+g.Cid.String()]
				cmu.Unlock()
				want, ok := 0, false
				if ordinal[em] < len(cl) && len(cl) == ordN[string(g.PeerID)+"|"+g.Cid.String()] {
					want, ok = cl[ordinal[em]], true
				}
				if ok && want != g.Count && len(cl) > 1 {
					// (the same head was notified several times and this listener did not have to get all of them:
					// which of those notifications it holds is not determined by the CID; any of their counts will do)
					for _, alt := range cl {
						if alt == g.Count {
							ok = false
						}
					}
				}
				if ok && want != g.Count {
					c.Fail(sub, i, "notification-count-differs", fmt.Sprintf("listener %d: count %d, the sync reported %d blocks", l.id, g.Count, want), lw())
				}
			}
			// must not have been forwarded before the registration call even started
			if em.fwd != 0 && em.fwd < l.regCall {
				c.Fail(sub, i, "listener-received-event-forwarded-before-registration", fmt.Sprintf("listener %d", l.id), lw())
				break
			}
		}
		// MUST-set. Where the same head is notified more than once (resyncs), the pairing above is one of several
		// possible ones, so "missed" is decided on its own: per publisher, the notifications the listener had to get,
		// in emission order, must be found in that order among those it received from that publisher.
		missing := 0
		recvPos := map[peer.ID]int{}
		recvOf := map[peer.ID][]cid.Cid{}
		for _, g := range got {
			recvOf[g.PeerID] = append(recvOf[g.PeerID], g.Cid)
		}
		for _, em := range emits {
			must := em.begin > l.regRet && (l.cancelAt == 0 || (em.fwd != 0 && em.fwd < l.cancelAt))
			if closeAtEnd && l.cancelAt == 0 {
				must = em.begin > l.regRet
			}
			if must {
				c.Inc("must_deliveries_checked")
				rl := recvOf[em.peer]
				x := recvPos[em.peer]
				for x < len(rl) && !rl[x].Equals(em.cid) {
					x++
				}
				if x < len(rl) {
					recvPos[em.peer] = x + 1
				} else {
					missing++
				}
			} else if used[em] {
				c.Inc("may_deliveries_observed")
			}
		}
		if missing > 0 {
			key := "listener-missed-notification"
			if l.cancelAt != 0 {
				key = "listener-missed-notification-queued-before-cancel"
			}
			c.Fail(sub, i, key+":"+l.behaviour, fmt.Sprintf("listener %d (%s) did not receive %d notification(s) it was registered for", l.id, l.behaviour, missing), lw())
		}
		c.Inc("listener_" + l.behaviour)
	}
	c.Eval(1)
	if seg > 0 {
		c.Inc("runs_with_segmented_syncs")
	}
	c.Add("emitted_events", int64(len(emits)))
	if many {
		c.Inc("long_runs_with_stalled_listener")
	}
	c.Distinct(sub, desc)
	c.DistinctIn("listener_mixes", fmt.Sprint(nlist, many, closeAtEnd, delay))
	if c.WantSample(sub) && nlist >= 2 && !many {
		c.Sample(sub, map[string]any{"config": desc, "emitted": len(emits), "listeners": len(ls)})
	}
}

func (l *c14Listener) doCancel(tl *tapLog) {
	l.mu.Lock()
	if l.cancelAt != 0 {
		l.mu.Unlock()
		return
	}
	l.cancelAt = tl.mark("client.cancel.call", "", cid.Undef)
	l.mu.Unlock()
	l.cancel()
	l.mu.Lock()
	l.cancelRet = tl.mark("client.cancel.ret", "", cid.Undef)
	l.mu.Unlock()
}

func (l *c14Listener) run(c *vf.Ctx, tl *tapLog) {
	defer close(l.done)
	if l.behaviour == "read-some-then-stall" {
		// first let a backlog build up (so that the few notifications read next leave others queued behind them)
		base := tl.count("dist.forward")
		for w := 0; w < 4000 && tl.count("dist.forward") < base+l.n+3; w++ {
			time.Sleep(500 * time.Microsecond)
		}
	}
	switch l.behaviour {
	case "stalled", "cancel-then-read":
		if l.behaviour == "cancel-then-read" {
			// wait for a few events to queue up (bounded), cancel, and only then read the backlog
			time.Sleep(3 * time.Millisecond)
			l.doCancel(tl)
		}
		<-l.release
	}
	cnt := 0
	for ev := range l.ch {
		l.mu.Lock()
		l.got = append(l.got, ev)
		l.gotT = append(l.gotT, c.Tick())
		l.mu.Unlock()
		cnt++
		switch l.behaviour {
		case "slow":
			time.Sleep(300 * time.Microsecond)
		case "cancel-after-n":
			if cnt == l.n {
				l.doCancel(tl)
			}
		case "read-some-then-stall":
			// has read a few notifications out of a backlog; now falls far behind, and reads the rest at the end
			if cnt == l.n {
				<-l.release
			}
		}
	}
	l.mu.Lock()
	l.closed = true
	l.mu.Unlock()
}

var _ = strings.Join
