package props

import (
	"crypto/rand"
	"fmt"
	mrand "math/rand"
	"sync"

	"github.com/libp2p/go-libp2p/core/crypto"
	"github.com/libp2p/go-libp2p/core/peer"
)

// Ident is a key pair with its peer ID.
type Ident struct {
	Priv crypto.PrivKey
	Pub  crypto.PubKey
	ID   peer.ID
	Type string
}

var (
	keyPoolOnce sync.Once
	keyPool     map[string][]Ident
)

var KeyTypes = []string{"ed25519", "secp256k1", "ecdsa", "rsa"}

// detReader is a deterministic byte stream (keys only need to be distinct and
// stable, not secret).
type detReader struct{ r *mrand.Rand }

func (d detReader) Read(p []byte) (int, error) { return d.r.Read(p) }

func genIdent(typ string, n int) Ident {
	var priv crypto.PrivKey
	var pub crypto.PubKey
	var err error
	src := detReader{mrand.New(mrand.NewSource(int64(7919*n) + int64(len(typ))))}
	switch typ {
	case "ed25519":
		priv, pub, err = crypto.GenerateEd25519Key(src)
	case "secp256k1":
		priv, pub, err = crypto.GenerateSecp256k1Key(src)
	case "ecdsa":
		priv, pub, err = crypto.GenerateECDSAKeyPair(rand.Reader)
	case "rsa":
		priv, pub, err = crypto.GenerateRSAKeyPair(2048, rand.Reader)
	default:
		panic("unknown key type " + typ)
	}
	if err != nil {
		panic(err)
	}
	id, err := peer.IDFromPublicKey(pub)
	if err != nil {
		panic(err)
	}
	return Ident{Priv: priv, Pub: pub, ID: id, Type: typ}
}

// Keys returns a pool of identities per key type (4 each, RSA 3), built once.
func Keys() map[string][]Ident {
	keyPoolOnce.Do(func() {
		pool := map[string][]Ident{}
		var wg sync.WaitGroup
		for _, t := range KeyTypes {
			n := 4
			if t == "rsa" {
				n = 3
			}
			sl := make([]Ident, n)
			pool[t] = sl
			for k := 0; k < n; k++ {
				wg.Add(1)
				go func(t string, k int, sl []Ident) {
					defer wg.Done()
					sl[k] = genIdent(t, k) // each goroutine writes its own element; the map is not touched
				}(t, k, sl)
			}
		}
		keyPool = pool
		wg.Wait()
	})
	return keyPool
}

// AnyIdent picks an identity (all key types) from the pool.
func AnyIdent(r *mrand.Rand) Ident {
	t := KeyTypes[r.Intn(len(KeyTypes))]
	l := Keys()[t]
	return l[r.Intn(len(l))]
}

// EdIdent makes a fresh cheap Ed25519 identity from the PRNG.
func EdIdent(r *mrand.Rand) Ident {
	priv, pub, err := crypto.GenerateEd25519Key(detReader{r})
	if err != nil {
		panic(err)
	}
	id, _ := peer.IDFromPublicKey(pub)
	return Ident{Priv: priv, Pub: pub, ID: id, Type: "ed25519"}
}

func (i Ident) String() string { return fmt.Sprintf("%s:%s", i.Type, i.ID) }
