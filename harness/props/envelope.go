package props

import (
	"bytes"
	"math/rand"

	"github.com/libp2p/go-libp2p/core/crypto"
	cryptopb "github.com/libp2p/go-libp2p/core/crypto/pb"
	recordpb "github.com/libp2p/go-libp2p/core/record/pb"
	"google.golang.org/protobuf/proto"
)

// envFields is the independently parsed content of a libp2p signed envelope.
type envFields struct {
	ok          bool
	key         crypto.PubKey
	keyType     cryptopb.KeyType
	payloadType []byte
	payload     []byte
	sig         []byte
}

func parseEnvelope(b []byte) envFields {
	var e recordpb.Envelope
	if err := proto.Unmarshal(b, &e); err != nil {
		return envFields{}
	}
	if e.PublicKey == nil {
		return envFields{}
	}
	k, err := crypto.PublicKeyFromProto(e.PublicKey)
	if err != nil {
		return envFields{}
	}
	return envFields{ok: true, key: k, keyType: e.PublicKey.GetType(), payloadType: e.PayloadType, payload: e.Payload, sig: e.Signature}
}

// sameEnvelope tells whether two envelope encodings carry the same key,
// payload type, payload and signature (then one is not an alteration of the
// other in the sense of the properties).
func sameEnvelope(a, b []byte) bool {
	x, y := parseEnvelope(a), parseEnvelope(b)
	if !x.ok || !y.ok {
		return false
	}
	return x.key.Equals(y.key) && bytes.Equal(x.payloadType, y.payloadType) && bytes.Equal(x.payload, y.payload) && bytes.Equal(x.sig, y.sig)
}

// envelopeFieldSpans locates the value bytes of the top-level fields of an
// envelope encoding: returns name -> [start,end).
func envelopeFieldSpans(b []byte) map[string][2]int {
	out := map[string][2]int{}
	names := map[uint64]string{1: "public_key", 2: "payload_type", 3: "payload", 5: "signature"}
	off := 0
	for off < len(b) {
		tag, n := uvarint(b[off:])
		if n <= 0 {
			return out
		}
		off += n
		if tag&7 != 2 {
			return out
		}
		l, n := uvarint(b[off:])
		if n <= 0 || int(l) > len(b)-off-n {
			return out
		}
		off += n
		if nm, ok := names[tag>>3]; ok {
			out[nm] = [2]int{off, off + int(l)}
		}
		off += int(l)
	}
	return out
}

func uvarint(b []byte) (uint64, int) {
	var x uint64
	var s uint
	for i, c := range b {
		if i == 10 {
			return 0, -1
		}
		if c < 0x80 {
			return x | uint64(c)<<s, i + 1
		}
		x |= uint64(c&0x7f) << s
		s += 7
	}
	return 0, 0
}

// alterInField flips one bit of one byte inside the named field.
func alterInField(r *rand.Rand, env []byte, field string) ([]byte, int, bool) {
	sp, ok := envelopeFieldSpans(env)[field]
	if !ok || sp[1] <= sp[0] {
		return nil, 0, false
	}
	pos := sp[0] + r.Intn(sp[1]-sp[0])
	out := append([]byte(nil), env...)
	out[pos] ^= 1 << uint(r.Intn(8))
	return out, pos, true
}
