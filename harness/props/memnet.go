package props

import (
	"context"
	"errors"
	"fmt"
	"net"
	"net/http"
	"sync"
	"time"
)

// memNet is an in-process "network": listeners registered here are reached by
// http.DefaultTransport through net.Pipe connections instead of kernel sockets.
// The monitors create tens of thousands of short-lived HTTP connections (the
// library closes its idle connections after every sync); over real TCP these pile
// up in TIME_WAIT and can exhaust the ephemeral port range of the whole machine,
// which would turn into spurious "address already in use" failures. Addresses that
// are not registered are dialled for real (libp2p-HTTP hosts, httptest servers,
// deliberately dead addresses).
type memNetT struct {
	mu        sync.Mutex
	listeners map[string]*memListener
	next      int
}

var memNet = &memNetT{listeners: map[string]*memListener{}, next: 10000}

var realDialer = &net.Dialer{Timeout: 30 * time.Second, KeepAlive: 30 * time.Second}

func init() {
	if tr, ok := http.DefaultTransport.(*http.Transport); ok {
		tr.DialContext = memNet.DialContext
	}
}

type memListener struct {
	addr   *net.TCPAddr
	ch     chan net.Conn
	closed chan struct{}
	once   sync.Once
}

func (m *memNetT) Listen() *memListener {
	m.mu.Lock()
	defer m.mu.Unlock()
	m.next++
	l := &memListener{addr: &net.TCPAddr{IP: net.IPv4(127, 0, 0, 1), Port: m.next}, ch: make(chan net.Conn), closed: make(chan struct{})}
	m.listeners[l.addr.String()] = l
	return l
}

func (m *memNetT) DialContext(ctx context.Context, network, addr string) (net.Conn, error) {
	m.mu.Lock()
	l := m.listeners[addr]
	m.mu.Unlock()
	if l == nil {
		return realDialer.DialContext(ctx, network, addr)
	}
	c1, c2 := net.Pipe()
	select {
	case l.ch <- c2:
		return &memConn{Conn: c1, remote: l.addr}, nil
	case <-l.closed:
		c1.Close()
		c2.Close()
		return nil, &net.OpError{Op: "dial", Net: network, Addr: l.addr, Err: errors.New("connection refused (in-memory listener closed)")}
	case <-ctx.Done():
		c1.Close()
		c2.Close()
		return nil, ctx.Err()
	}
}

func (l *memListener) Accept() (net.Conn, error) {
	select {
	case c := <-l.ch:
		return &memConn{Conn: c, remote: &net.TCPAddr{IP: net.IPv4(127, 0, 0, 1), Port: 1}}, nil
	case <-l.closed:
		return nil, net.ErrClosed
	}
}

func (l *memListener) Close() error {
	l.once.Do(func() {
		close(l.closed)
		memNet.mu.Lock()
		delete(memNet.listeners, l.addr.String())
		memNet.mu.Unlock()
	})
	return nil
}

func (l *memListener) Addr() net.Addr { return l.addr }

func (l *memListener) URL() string { return fmt.Sprintf("http://%s", l.addr.String()) }

type memConn struct {
	net.Conn
	remote net.Addr
}

func (c *memConn) RemoteAddr() net.Addr { return c.remote }

// memServer serves h on an in-memory listener.
type memServer struct {
	L   *memListener
	srv *http.Server
	URL string
}

func newMemServer(h http.Handler) *memServer {
	l := memNet.Listen()
	s := &memServer{L: l, srv: &http.Server{Handler: h}, URL: l.URL()}
	go s.srv.Serve(l)
	return s
}

func (s *memServer) Close() {
	s.srv.Close()
	s.L.Close()
}
