package props

import (
	"sync/atomic"
	"bufio"
	"bytes"
	"context"
	"encoding/hex"
	"encoding/json"
	"errors"
	"fmt"
	"io"
	"math/rand"
	"net/http"
	"net/http/httptest"
	"strings"
	"sync"

	"github.com/ipfs/go-cid"
	"github.com/ipni/go-libipni/apierror"
	client "github.com/ipni/go-libipni/find/client"
	"github.com/ipni/go-libipni/find/model"
	"github.com/ipni/go-libipni/rwriter"
	"github.com/libp2p/go-libp2p/core/peer"
	"github.com/mr-tron/base58"
	"github.com/multiformats/go-multiaddr"
	"github.com/multiformats/go-multibase"
	"github.com/multiformats/go-multihash"

	"verif/harness/vf"
)

func init() { Registry["C19"] = runC19 }

// findServer is the glue a real indexer puts around the response writer.
type findServer struct {
	mu sync.Mutex
	db map[string][]model.ProviderResult // key: multihash bytes
	nreq atomic.Int64
	noFlushServed atomic.Int64
}

// plainWriter hides every optional interface of the server's ResponseWriter (http.Flusher in particular), the way
// a middleware wrapper does
type plainWriter struct{ http.ResponseWriter }

func (s *findServer) set(mh multihash.Multihash, prs []model.ProviderResult) {
	s.mu.Lock()
	s.db[string(mh)] = prs
	s.mu.Unlock()
}

func writeAPIError(w http.ResponseWriter, err error) {
	var ae *apierror.Error
	status := http.StatusInternalServerError
	if errors.As(err, &ae) {
		status = ae.Status()
	}
	http.Error(w, string(apierror.EncodeError(err)), status)
}

func (s *findServer) ServeHTTP(w http.ResponseWriter, r *http.Request) {
	if s.nreq.Add(1)%3 == 0 {
		w = plainWriter{w} // every third request is answered through a writer that cannot flush
		s.noFlushServed.Add(1)
	}
	rw, err := rwriter.New(w, r, rwriter.WithPreferJson(true))
	if err != nil {
		writeAPIError(w, err)
		return
	}
	pw := rwriter.NewProviderResponseWriter(rw)
	s.mu.Lock()
	prs := s.db[string(pw.Multihash())]
	s.mu.Unlock()
	for _, pr := range prs {
		if err := pw.WriteProviderResult(pr); err != nil {
			writeAPIError(w, err)
			return
		}
	}
	if err := pw.Close(); err != nil {
		writeAPIError(w, err)
	}
}

func c19GenResults(r *rand.Rand) []model.ProviderResult {
	n := []int{0, 1, 1, 2, 3, 5, 20}[r.Intn(7)]
	big := r.Intn(40) == 0 // now and then a response of a few hundred KiB
	if big {
		n = []int{30, 120, 400}[r.Intn(3)]
	}
	out := make([]model.ProviderResult, n)
	for k := range out {
		var ctx, md []byte
		switch r.Intn(4) {
		case 0:
		case 1:
			ctx = []byte{}
		default:
			ctx = rbytes(r, 1+r.Intn(64))
		}
		switch r.Intn(4) {
		case 0:
		case 1:
			md = []byte{}
		default:
			md = rbytes(r, 1+r.Intn(100))
			if big {
				md = rbytes(r, 512+r.Intn(8192))
			}
		}
		ai := &peer.AddrInfo{ID: AnyIdent(r).ID}
		if r.Intn(3) == 0 {
			ai.ID = EdIdent(r).ID
		}
		for a := r.Intn(4); a > 0; a-- {
			ai.Addrs = append(ai.Addrs, c20GenLabAddr(r).ma)
		}
		out[k] = model.ProviderResult{ContextID: ctx, Metadata: md, Provider: ai}
	}
	return out
}

func prString(p model.ProviderResult) string {
	if p.Provider == nil {
		return fmt.Sprintf("ctx=%x md=%x provider=<nil>", p.ContextID, p.Metadata)
	}
	return fmt.Sprintf("ctx=%x md=%x provider=%s addrs=%v", p.ContextID, p.Metadata, p.Provider.ID, maStrings(p.Provider.Addrs))
}

func prsStrings(l []model.ProviderResult) []string {
	out := make([]string, len(l))
	for i, p := range l {
		out[i] = prString(p)
	}
	return out
}

func c19GenMh(r *rand.Rand) multihash.Multihash {
	code := []uint64{multihash.SHA2_256, multihash.SHA2_512, multihash.IDENTITY, multihash.SHA1, multihash.DBL_SHA2_256}[r.Intn(5)]
	mh, _ := multihash.Sum(rbytes(r, 1+r.Intn(40)), code, -1)
	return mh
}

func runC19(c *vf.Ctx) {
	srvState := &findServer{db: map[string][]model.ProviderResult{}}
	srv := httptest.NewServer(srvState)
	defer srv.Close()
	c19Client(c, srvState, srv)
	c19Raw(c, srvState, srv)
	c.Add("requests_served_through_a_writer_that_cannot_flush", srvState.noFlushServed.Load())
	c19APIError(c)
}

func c19Client(c *vf.Ctx, st *findServer, srv *httptest.Server) {
	const sub = "client-roundtrip"
	if !c.Active(sub) {
		return
	}
	cl, err := client.New(srv.URL)
	if err != nil {
		c.Fail(sub, 0, "client-new", err.Error(), nil)
		return
	}
	n := c.N(8000, 300000)
	for i := 0; i < n; i++ {
		if !c.Mine(sub, i) {
			continue
		}
		r := c.Rand(sub, i)
		nm := 1 + r.Intn(3)
		mhs := make([]multihash.Multihash, nm)
		lists := make([][]model.ProviderResult, nm)
		for k := range mhs {
			mhs[k] = c19GenMh(r)
			lists[k] = c19GenResults(r)
			st.set(mhs[k], lists[k])
		}
		c.Cur(sub, i, fmt.Sprint(len(lists[0])))
		wit := func() any {
			m := map[string]any{}
			for k := range mhs {
				m[hex.EncodeToString(mhs[k])] = prsStrings(lists[k])
			}
			return m
		}
		c.Guard(sub, i, wit, func() {
			for k := range mhs {
				resp, err := cl.Find(context.Background(), mhs[k])
				if err != nil {
					c.Fail(sub, i, "find-error", err.Error(), wit())
					continue
				}
				if len(lists[k]) == 0 {
					if len(resp.MultihashResults) != 0 {
						c.Fail(sub, i, "empty-set-not-empty-response", fmt.Sprint(resp), wit())
					}
					c.Inc("empty_sets")
					continue
				}
				if len(resp.MultihashResults) != 1 || !bytes.Equal(resp.MultihashResults[0].Multihash, mhs[k]) {
					c.Fail(sub, i, "find-multihash-differs", fmt.Sprint(len(resp.MultihashResults)), wit())
					continue
				}
				got, want := prsStrings(resp.MultihashResults[0].ProviderResults), prsStrings(lists[k])
				if strings.Join(got, "\n") != strings.Join(want, "\n") {
					c.Fail(sub, i, "find-results-differ", fmt.Sprintf("got\n %s\nwant\n %s", strings.Join(got, "\n "), strings.Join(want, "\n ")), wit())
				}
				c.Inc("nonempty_sets")
				if len(lists[k]) >= 30 {
					c.Inc("large_result_sets")
				}
			}
			// batch: results for every multihash with a non-empty set, in request order
			resp, err := client.FindBatch(context.Background(), cl, mhs)
			if err != nil {
				c.Fail(sub, i, "findbatch-error", err.Error(), wit())
				return
			}
			var wantMh []string
			seen := map[string]bool{}
			for k := range mhs {
				// a later set() for an equal multihash overwrote the earlier one
				last := k
				for j := range mhs {
					if bytes.Equal(mhs[j], mhs[k]) {
						last = j
					}
				}
				if len(lists[last]) > 0 {
					wantMh = append(wantMh, hex.EncodeToString(mhs[k]))
				}
				seen[string(mhs[k])] = true
			}
			var gotMh []string
			for _, mr := range resp.MultihashResults {
				gotMh = append(gotMh, hex.EncodeToString(mr.Multihash))
			}
			if strings.Join(gotMh, ",") != strings.Join(wantMh, ",") {
				c.Fail(sub, i, "findbatch-differs", fmt.Sprintf("got %v want %v", gotMh, wantMh), wit())
			}
		})
		c.Eval(nm + 1)
		c.Distinct(sub, fmt.Sprint(len(lists[0]), nm))
		if c.WantSample(sub) && len(lists[0]) > 1 && len(lists[0]) < 4 {
			c.Sample(sub, wit())
		}
	}
}

type c19Accept struct {
	hdrs []string // header values (nil = no Accept header)
	want string   // json | ndjson | reject
	kind string
}

// a malformed entry next to (or on) a type the helper supports: still a malformed header
var c19MalformedWithSupported = [][]string{
	{"application/json; q"},
	{"application/json;=1"},
	{"application/x-ndjson; q=\"0.5"},
	{"application/json; q=1; q=0.5"},
	{"text/ html, application/json"},
	{"application/json", "*/*; q"},
	{"application/x-ndjson, application/json; charset"},
	{"application/json, text/html; =x"},
}

func c19GenAccept(r *rand.Rand) c19Accept {
	if r.Intn(12) == 0 {
		return c19Accept{c19MalformedWithSupported[r.Intn(len(c19MalformedWithSupported))], "reject", "malformed-entry-with-a-supported-type"}
	}
	switch r.Intn(14) {
	case 0:
		return c19Accept{nil, "json", "none"}
	case 1:
		return c19Accept{[]string{"application/json"}, "json", "json"}
	case 2:
		return c19Accept{[]string{"application/x-ndjson"}, "ndjson", "ndjson"}
	case 3:
		return c19Accept{[]string{"*/*"}, "json", "any"}
	case 4:
		return c19Accept{[]string{"application/json; q=0.9, text/html;q=0.1"}, "json", "json-q-list"}
	case 5:
		return c19Accept{[]string{"text/html, application/x-ndjson;q=0.5"}, "ndjson", "ndjson-in-list"}
	case 6:
		return c19Accept{[]string{"application/x-ndjson, application/json"}, "ndjson", "both"}
	case 7:
		return c19Accept{[]string{"text/html", "application/json"}, "json", "two-headers"}
	case 8:
		return c19Accept{[]string{"text/html"}, "reject", "unsupported"}
	case 9:
		return c19Accept{[]string{"image/png, text/plain;q=0.2"}, "reject", "unsupported-list"}
	case 10:
		return c19Accept{[]string{";;;"}, "reject", "malformed"}
	case 11:
		return c19Accept{[]string{"application/json/extra;q="}, "reject", "malformed"}
	case 12:
		return c19Accept{[]string{"APPLICATION/JSON"}, "json", "json-uppercase"}
	default:
		return c19Accept{[]string{"text/html,*/*;q=0.8"}, "json", "any-in-list"}
	}
}

const b58Alphabet = "123456789ABCDEFGHJKLMNPQRSTUVWXYZabcdefghijkmnopqrstuvwxyz"

func c19Raw(c *vf.Ctx, st *findServer, srv *httptest.Server) {
	const sub = "raw-requests"
	if !c.Active(sub) {
		return
	}
	n := c.N(20000, 600000)
	hc := srv.Client()
	for i := 0; i < n; i++ {
		if !c.Mine(sub, i) {
			continue
		}
		r := c.Rand(sub, i)
		mh := c19GenMh(r)
		list := c19GenResults(r)
		st.set(mh, list)
		acc := c19GenAccept(r)
		// key form
		var pathType, key, keyKind string
		wantKey := "ok" // ok | reject | either
		switch r.Intn(12) {
		case 0, 1, 2:
			pathType, key, keyKind = "multihash", mh.B58String(), "b58"
		case 3, 4:
			pathType, key, keyKind = "multihash", hex.EncodeToString(mh), "hex"
			// a hex string without the digit 0 is also a base58 string; only when reading it as base58 gives a
			// valid multihash too is the key really ambiguous (the helper's base58-first rule then decides)
			if b, err := base58.Decode(key); err == nil {
				c.Inc("hex_keys_that_are_also_base58_strings")
				if _, err := multihash.Decode(b); err == nil {
					wantKey = "either"
				}
			}
		case 5:
			pathType, key, keyKind = "cid", cid.NewCidV1(cid.Raw, mh).String(), "cidv1"
		case 6:
			s, _ := cid.NewCidV1(cid.DagCBOR, mh).StringOfBase(multibase.Base58BTC)
			pathType, key, keyKind = "cid", s, "cidv1-b58"
		case 7:
			s, _ := cid.NewCidV1(cid.DagJSON, mh).StringOfBase(multibase.Base16)
			pathType, key, keyKind = "cid", s, "cidv1-b16"
		case 8:
			m2, _ := multihash.Sum(rbytes(r, 8), multihash.SHA2_256, -1)
			mh = m2
			st.set(mh, list)
			pathType, key, keyKind = "cid", cid.NewCidV0(mh).String(), "cidv0"
		case 9:
			pathType, key, keyKind, wantKey = "multihash", []string{"!!!", "0OIl", "zz zz", base58.Encode(rbytes(r, 3)), "%20"}[r.Intn(5)], "bad-key", "reject"
		case 10:
			pathType, key, keyKind, wantKey = "cid", []string{"notacid", "bafy", mh.B58String() + "x", "Qm"}[r.Intn(4)], "bad-cid", "reject"
		default:
			pathType, key, keyKind, wantKey = []string{"providers", "multihashes", "mh", "CID", ""}[r.Intn(5)], mh.B58String(), "bad-type", "reject"
		}
		prefix := []string{"", "/api/v1", "/x/y/z", "/multihash"}[r.Intn(4)]
		if pathType == "" {
			// "<prefix>//<key>" cleans to "<prefix>/<key>": keep the prefix from supplying a valid type
			prefix = []string{"", "/api/v1"}[r.Intn(2)]
		}
		urlPath := prefix + "/" + pathType + "/" + key
		c.Cur(sub, i, fmt.Sprintf("%s accept=%v", urlPath, acc.hdrs))
		wit := func() any {
			return map[string]any{"path": urlPath, "accept": acc.hdrs, "key_kind": keyKind, "results": prsStrings(list), "multihash": hex.EncodeToString(mh)}
		}
		c.Guard(sub, i, wit, func() {
			req, err := http.NewRequest(http.MethodGet, srv.URL+urlPath, nil)
			if err != nil {
				c.Inc("unbuildable_requests")
				return
			}
			for _, h := range acc.hdrs {
				req.Header.Add("Accept", h)
			}
			resp, err := hc.Do(req)
			if err != nil {
				c.Fail(sub, i, "request-error", err.Error(), wit())
				return
			}
			body, _ := io.ReadAll(resp.Body)
			resp.Body.Close()
			if resp.StatusCode >= 500 {
				c.Fail(sub, i, "server-error-status", fmt.Sprintf("%d %s", resp.StatusCode, body), wit())
				return
			}
			reject := acc.want == "reject" || wantKey == "reject"
			if reject {
				if resp.StatusCode < 400 || resp.StatusCode >= 500 {
					c.Fail(sub, i, "bad-request-not-rejected:"+acc.kind+"/"+keyKind, fmt.Sprintf("status %d", resp.StatusCode), wit())
					return
				}
				// the API error keeps its status through the wire encoding
				derr := apierror.DecodeError(bytes.TrimSpace(body))
				var ae *apierror.Error
				if !errors.As(derr, &ae) || ae.Status() != resp.StatusCode {
					c.Fail(sub, i, "api-error-status-lost", fmt.Sprintf("wire %d body %q decoded %v", resp.StatusCode, body, derr), wit())
				}
				c.Inc("rejected_" + map[bool]string{true: "accept", false: "key"}[acc.want == "reject"])
				return
			}
			if wantKey == "either" && resp.StatusCode >= 400 {
				c.Inc("hex_key_read_as_base58")
				return
			}
			if len(list) == 0 {
				if resp.StatusCode != http.StatusNotFound {
					c.Fail(sub, i, "empty-set-not-404:"+acc.want, fmt.Sprintf("status %d body %q", resp.StatusCode, body), wit())
				}
				c.Inc("empty_on_wire_" + acc.want)
				return
			}
			if resp.StatusCode != http.StatusOK {
				if wantKey == "either" {
					c.Inc("hex_key_read_as_base58")
					return
				}
				c.Fail(sub, i, "good-request-rejected:"+acc.kind+"/"+keyKind, fmt.Sprintf("status %d body %q", resp.StatusCode, body), wit())
				return
			}
			want := prsStrings(list)
			var got []string
			if acc.want == "ndjson" {
				if ct := resp.Header.Get("Content-Type"); !strings.HasPrefix(ct, "application/x-ndjson") {
					c.Fail(sub, i, "ndjson-content-type", ct, wit())
				}
				sc := bufio.NewScanner(bytes.NewReader(body))
				sc.Buffer(make([]byte, 1<<20), 1<<20)
				for sc.Scan() {
					ln := sc.Bytes()
					if len(bytes.TrimSpace(ln)) == 0 {
						continue
					}
					var pr model.ProviderResult
					if err := json.Unmarshal(ln, &pr); err != nil {
						c.Fail(sub, i, "ndjson-line-not-a-result", fmt.Sprintf("%q: %v", ln, err), wit())
						return
					}
					got = append(got, prString(pr))
				}
				c.Inc("ndjson_responses")
			} else {
				if ct := resp.Header.Get("Content-Type"); !strings.HasPrefix(ct, "application/json") {
					c.Fail(sub, i, "json-content-type", ct, wit())
				}
				fr, err := model.UnmarshalFindResponse(body)
				if err != nil || len(fr.MultihashResults) != 1 {
					c.Fail(sub, i, "json-body-undecodable", fmt.Sprintf("%v %q", err, body), wit())
					return
				}
				if !bytes.Equal(fr.MultihashResults[0].Multihash, mh) {
					if wantKey == "either" {
						c.Inc("hex_key_read_as_base58")
						return
					}
					c.Fail(sub, i, "json-multihash-differs", hex.EncodeToString(fr.MultihashResults[0].Multihash), wit())
				}
				got = prsStrings(fr.MultihashResults[0].ProviderResults)
				c.Inc("json_responses")
			}
			if strings.Join(got, "\n") != strings.Join(want, "\n") {
				c.Fail(sub, i, "wire-results-differ:"+acc.want, fmt.Sprintf("got\n %s\nwant\n %s", strings.Join(got, "\n "), strings.Join(want, "\n ")), wit())
			}
			c.Inc("key_" + keyKind)
		})
		c.Eval(1)
		c.Distinct(sub, acc.kind, keyKind, fmt.Sprint(len(list) == 0))
		if c.WantSample(sub) && len(list) == 1 {
			c.Sample(sub, wit())
		}
	}
}

func c19APIError(c *vf.Ctx) {
	const sub = "apierror"
	if !c.Active(sub) {
		return
	}
	n := c.N(8000, 300000)
	for i := 0; i < n; i++ {
		if !c.Mine(sub, i) {
			continue
		}
		r := c.Rand(sub, i)
		status := []int{0, 400, 401, 403, 404, 405, 429, 499, 500, 503, 599, 777}[r.Intn(12)]
		msg := []string{"", "boom", "invalid Accept header", "multi\nline", "quote\"d", "ünïcode", " padded "}[r.Intn(7)]
		if r.Intn(3) == 0 {
			msg = hex.EncodeToString(rbytes(r, r.Intn(30)))
		}
		var inner error
		if msg != "" {
			inner = errors.New(msg)
		}
		c.Cur(sub, i, fmt.Sprintf("%d %q", status, msg))
		wit := func() any { return map[string]any{"status": status, "message": msg} }
		c.Guard(sub, i, wit, func() {
			var e error
			if status == 0 {
				if inner == nil {
					return
				}
				e = inner
			} else {
				e = apierror.New(inner, status)
			}
			// possibly wrapped, as server code does with %w
			if r.Intn(4) == 0 && status != 0 {
				e = fmt.Errorf("%w", e)
			}
			d := apierror.DecodeError(apierror.EncodeError(e))
			if d == nil {
				c.Fail(sub, i, "decode-error-nil", "", wit())
				return
			}
			if d.Error() != e.Error() {
				c.Fail(sub, i, "api-error-message-lost", fmt.Sprintf("%q -> %q", e.Error(), d.Error()), wit())
			}
			var ae *apierror.Error
			if status != 0 {
				if !errors.As(d, &ae) || ae.Status() != status {
					c.Fail(sub, i, "api-error-status-lost", fmt.Sprintf("%v", d), wit())
				}
			} else if errors.As(d, &ae) {
				c.Fail(sub, i, "plain-error-gained-status", fmt.Sprint(ae.Status()), wit())
			}
			// FromResponse keeps status and (trimmed) body text
			fr := apierror.FromResponse(status, []byte(msg))
			if status != 0 {
				if !errors.As(fr, &ae) || ae.Status() != status {
					c.Fail(sub, i, "fromresponse-status-lost", fmt.Sprintf("%v", fr), wit())
				} else if t := strings.TrimSpace(msg); t != "" && ae.Error() != t {
					c.Fail(sub, i, "fromresponse-message-lost", fmt.Sprintf("%q -> %q", msg, ae.Error()), wit())
				}
			}
		})
		c.Eval(1)
		c.Distinct(sub, fmt.Sprint(status), fmt.Sprint(msg == ""))
	}
}

var _ = multiaddr.StringCast
