package props

import (
	"bytes"
	"context"
	"encoding/hex"
	"encoding/json"
	"fmt"
	"math/rand"
	"net/http"
	"sync/atomic"
	"sort"
	"strings"
	"sync"
	"time"

	"github.com/ipni/go-libipni/dhash"
	client "github.com/ipni/go-libipni/find/client"
	"github.com/ipni/go-libipni/find/model"
	"github.com/libp2p/go-libp2p/core/peer"
	b58 "github.com/mr-tron/base58/base58"
	"github.com/multiformats/go-multiaddr"
	"github.com/multiformats/go-multihash"

	"verif/harness/vf"
)

// c12MdLen: mostly short metadata, a quarter near the 1 KiB that indexers accept (the encrypted, base64-encoded
// value then exceeds 1 KiB on the dhstore wire)
func c12MdLen(r *rand.Rand) int {
	if r.Intn(4) == 0 {
		return []int{700, 800, 1000, 1023, 1024}[r.Intn(5)]
	}
	return 1 + r.Intn(60)
}

func init() { Registry["C12"] = runC12 }

func runC12(c *vf.Ctx) {
	c12AES(c)
	c12Tamper(c)
	c12ValueKey(c)
	c12SecondHash(c)
	c12Concurrent(c)
	c12Find(c)
}

func rbytes(r *rand.Rand, n int) []byte {
	b := make([]byte, n)
	r.Read(b)
	return b
}

func pickLen(r *rand.Rand, max int, edges ...int) int {
	if r.Intn(3) == 0 {
		return edges[r.Intn(len(edges))]
	}
	return r.Intn(max + 1)
}

func c12AES(c *vf.Ctx) {
	const sub = "aes-roundtrip"
	if !c.Active(sub) {
		return
	}
	n := c.N(20000, 1000000)
	for i := 0; i < n; i++ {
		if !c.Mine(sub, i) {
			continue
		}
		r := c.Rand(sub, i)
		pl := pickLen(r, 4096, 0, 1, 11, 12, 13, 15, 16, 17, 4096)
		pp := pickLen(r, 128, 0, 1, 34, 128)
		payload, pass := rbytes(r, pl), rbytes(r, pp)
		c.Cur(sub, i, fmt.Sprintf("payload=%d pass=%d", pl, pp))
		wit := func() any {
			return map[string]any{"payload_hex": hex.EncodeToString(payload), "passphrase_hex": hex.EncodeToString(pass)}
		}
		c.Guard(sub, i, wit, func() {
			p0 := append([]byte(nil), payload...)
			k0 := append([]byte(nil), pass...)
			nonce, ct, err := dhash.EncryptAES(payload, pass)
			if err != nil {
				c.Fail(sub, i, "encrypt-error", err.Error(), wit())
				return
			}
			if !bytes.Equal(p0, payload) || !bytes.Equal(k0, pass) {
				c.Fail(sub, i, "encrypt-mutates-input", "EncryptAES changed its arguments", wit())
			}
			nonce2, ct2, _ := dhash.EncryptAES(payload, pass)
			if !bytes.Equal(nonce, nonce2) || !bytes.Equal(ct, ct2) {
				c.Fail(sub, i, "encrypt-not-deterministic", "two encryptions differ", wit())
			}
			if len(nonce) != 12 {
				c.Fail(sub, i, "nonce-length", fmt.Sprint(len(nonce)), wit())
			}
			pt, err := dhash.DecryptAES(nonce, ct, pass)
			if err != nil || !bytes.Equal(pt, payload) {
				c.Fail(sub, i, "roundtrip-mismatch", fmt.Sprintf("err=%v", err), wit())
			}
			// wrong passphrase (guaranteed different)
			wrong := append(append([]byte(nil), pass...), byte(r.Intn(256)))
			if r.Intn(2) == 0 && len(pass) > 0 {
				wrong = append([]byte(nil), pass...)
				wrong[r.Intn(len(wrong))] ^= 1 << uint(r.Intn(8))
			}
			if got, err := dhash.DecryptAES(nonce, ct, wrong); err == nil {
				c.Fail(sub, i, "wrong-passphrase-accepted", fmt.Sprintf("returned %d bytes", len(got)), wit())
			}
			// the caller's passphrase buffer is its own: overwritten in place with another passphrase of the same
			// length and used again, it stands for that other passphrase
			if len(pass) > 0 {
				buf := append([]byte(nil), pass...)
				if _, _, err := dhash.EncryptAES(payload, buf); err == nil {
					other := append([]byte(nil), pass...)
					other[r.Intn(len(other))] ^= 1 << uint(r.Intn(8))
					copy(buf, other)
					nb, cb, errB := dhash.EncryptAES(payload, buf)
					nf, cf, errF := dhash.EncryptAES(payload, append([]byte(nil), other...))
					if (errB == nil) != (errF == nil) || !bytes.Equal(nb, nf) || !bytes.Equal(cb, cf) {
						c.Fail(sub, i, "encrypt-depends-on-an-earlier-call", "the same payload and passphrase bytes encrypt differently from a buffer that held another passphrase in an earlier call", wit())
					} else if errB == nil {
						if got, err := dhash.DecryptAES(nb, cb, append([]byte(nil), pass...)); err == nil {
							c.Fail(sub, i, "wrong-passphrase-accepted:after-buffer-reuse", fmt.Sprintf("returned %d bytes", len(got)), wit())
						}
						copy(buf, pass)
						_, _ = dhash.DecryptAES(nonce, ct, buf)
						copy(buf, other)
						if got, err := dhash.DecryptAES(nonce, ct, buf); err == nil {
							c.Fail(sub, i, "wrong-passphrase-accepted:after-buffer-reuse", fmt.Sprintf("returned %d bytes", len(got)), wit())
						}
					}
					c.Inc("passphrase_buffers_reused_for_another_passphrase")
				}
			}
			// ciphertext must not contain the plaintext (for payloads long enough to be meaningful)
			if pl >= 16 && bytes.Contains(ct, payload) {
				c.Fail(sub, i, "plaintext-in-ciphertext", "", wit())
			}
		})
		c.Eval(1)
		c.Distinct(sub, fmt.Sprint(pl), fmt.Sprint(pp))
		if c.WantSample(sub) {
			c.Sample(sub, map[string]any{"payload_len": pl, "passphrase_len": pp})
		}
	}
}

func c12Tamper(c *vf.Ctx) {
	const sub = "tamper"
	if !c.Active(sub) {
		return
	}
	n := c.N(300, 40000)
	for i := 0; i < n; i++ {
		if !c.Mine(sub, i) {
			continue
		}
		r := c.Rand(sub, i)
		pl := pickLen(r, 200, 0, 1, 12, 16, 34, 98)
		mhd := rbytes(r, 1+r.Intn(40))
		mh, _ := multihash.Sum(mhd, multihash.SHA2_256, -1)
		payload := rbytes(r, pl)
		c.Cur(sub, i, fmt.Sprintf("payload=%d", pl))
		wit := func() any {
			return map[string]any{"payload_hex": hex.EncodeToString(payload), "multihash_hex": hex.EncodeToString(mh)}
		}
		evk, err := dhash.EncryptValueKey(payload, mh)
		if err != nil {
			c.Fail(sub, i, "encrypt-error", err.Error(), wit())
			continue
		}
		emd, _ := dhash.EncryptMetadata(payload, mh)
		if !bytes.Equal(evk, emd) {
			c.Fail(sub, i, "valuekey-metadata-encryption-differ", "", wit())
		}
		type decf struct {
			name string
			f    func(in []byte) ([]byte, error)
		}
		decs := []decf{
			{"DecryptValueKey", func(in []byte) ([]byte, error) { return dhash.DecryptValueKey(in, mh) }},
			{"DecryptMetadata", func(in []byte) ([]byte, error) { return dhash.DecryptMetadata(in, mh) }},
		}
		for _, d := range decs {
			// intact
			c.Guard(sub, i, wit, func() {
				pt, err := d.f(evk)
				if pl == 0 && d.name == "DecryptMetadata" {
					// empty metadata encrypts to nonce+tag only (28 bytes) and decrypts to empty
				}
				if err != nil || !bytes.Equal(pt, payload) {
					c.Fail(sub, i, "roundtrip-mismatch:"+d.name, fmt.Sprintf("err=%v", err), wit())
				}
			})
			// every truncation length
			for l := 0; l < len(evk); l++ {
				in := append([]byte(nil), evk[:l]...)
				w := func() any {
					m := wit().(map[string]any)
					m["func"], m["input_hex"] = d.name, hex.EncodeToString(in)
					return m
				}
				c.Guard(sub, i, w, func() {
					if pt, err := d.f(in); err == nil {
						c.Fail(sub, i, "truncated-accepted:"+d.name, fmt.Sprintf("len %d of %d returned %d bytes", l, len(evk), len(pt)), w())
					}
				})
				c.Eval(1)
			}
			c.Add("truncations", int64(len(evk)))
			// a bit flip at every byte
			for p := 0; p < len(evk); p++ {
				in := append([]byte(nil), evk...)
				in[p] ^= 1 << uint(r.Intn(8))
				w := func() any {
					m := wit().(map[string]any)
					m["func"], m["input_hex"] = d.name, hex.EncodeToString(in)
					return m
				}
				c.Guard(sub, i, w, func() {
					if pt, err := d.f(in); err == nil {
						c.Fail(sub, i, "bitflip-accepted:"+d.name, fmt.Sprintf("flip at byte %d returned %d bytes", p, len(pt)), w())
					}
				})
				c.Eval(1)
			}
			c.Add("bitflips", int64(len(evk)))
			// appended bytes
			in := append(append([]byte(nil), evk...), rbytes(r, 1+r.Intn(4))...)
			c.Guard(sub, i, wit, func() {
				if _, err := d.f(in); err == nil {
					c.Fail(sub, i, "extended-accepted:"+d.name, "", wit())
				}
			})
		}
		// DecryptAES with every nonce length 0..24
		nonce, ct := evk[:12], evk[12:]
		for nl := 0; nl <= 24; nl++ {
			nn := make([]byte, nl)
			copy(nn, nonce)
			w := func() any {
				m := wit().(map[string]any)
				m["func"], m["nonce_len"] = "DecryptAES", nl
				return m
			}
			c.Guard(sub, i, w, func() {
				pt, err := dhash.DecryptAES(nn, ct, mh)
				if nl == 12 {
					if err != nil || !bytes.Equal(pt, payload) {
						c.Fail(sub, i, "roundtrip-mismatch:DecryptAES", fmt.Sprint(err), w())
					}
				} else if err == nil {
					c.Fail(sub, i, "bad-nonce-accepted", fmt.Sprintf("nonce length %d", nl), w())
				}
			})
			c.Eval(1)
		}
		c.Distinct(sub, fmt.Sprint(pl))
		if c.WantSample(sub) {
			c.Sample(sub, map[string]any{"payload_len": pl, "ciphertext_len": len(evk), "truncations_tried": len(evk), "bitflips_tried": len(evk), "nonce_lengths_tried": 25})
		}
	}
}

func c12ValueKey(c *vf.Ctx) {
	const sub = "valuekey"
	if !c.Active(sub) {
		return
	}
	n := c.N(15000, 200000)
	for i := 0; i < n; i++ {
		if !c.Mine(sub, i) {
			continue
		}
		r := c.Rand(sub, i)
		var id Ident
		if r.Intn(3) == 0 {
			id = EdIdent(r)
		} else {
			id = AnyIdent(r)
		}
		cl := pickLen(r, 64, 0, 1, 34, 38, 64)
		ctx := rbytes(r, cl)
		// context IDs that look like a multihash / peer ID prefix are the tricky ones
		if r.Intn(4) == 0 {
			ctx = append([]byte(AnyIdent(r).ID), ctx...)
			if len(ctx) > 64 {
				ctx = ctx[:64]
			}
		}
		c.Cur(sub, i, fmt.Sprintf("%s ctx=%x", id, ctx))
		wit := func() any { return map[string]any{"peer": id.ID.String(), "keytype": id.Type, "ctx_hex": hex.EncodeToString(ctx)} }
		c.Guard(sub, i, wit, func() {
			vk := dhash.CreateValueKey(id.ID, ctx)
			p, cx, err := dhash.SplitValueKey(vk)
			if err != nil || p != id.ID || !bytes.Equal(cx, ctx) {
				c.Fail(sub, i, "split-mismatch", fmt.Sprintf("err=%v peer=%s ctx=%x", err, p, cx), wit())
			}
		})
		c.Eval(1)
		c.Distinct(sub, id.Type, fmt.Sprint(len(ctx)))
		c.Inc("peerkind_" + map[bool]string{true: "identity", false: "sha256"}[[]byte(id.ID)[0] == 0x00])
		if c.WantSample(sub) {
			c.Sample(sub, wit())
		}
	}
	// hostile: SplitValueKey on arbitrary bytes must not panic
	for i := n; i < n+c.N(3000, 100000); i++ {
		if !c.Mine(sub, i) {
			continue
		}
		r := c.Rand(sub, i)
		vk := dhash.CreateValueKey(AnyIdent(r).ID, rbytes(r, r.Intn(20)))
		in, kind := vf.Mutate(r, vk, vk)
		c.Cur(sub, i, hex.EncodeToString(in))
		wit := func() any { return map[string]any{"input_hex": hex.EncodeToString(in), "mutation": kind} }
		c.Guard(sub, i, wit, func() {
			p, cx, err := dhash.SplitValueKey(in)
			if err == nil {
				// whatever it returns must re-join to the input
				if !bytes.Equal(dhash.CreateValueKey(p, cx), in) {
					c.Fail(sub, i, "split-join-mismatch", "", wit())
				}
			}
		})
		c.Eval(1)
	}
}

func c12SecondHash(c *vf.Ctx) {
	const sub = "second-hash"
	if !c.Active(sub) {
		return
	}
	n := c.N(15000, 200000)
	for i := 0; i < n; i++ {
		if !c.Mine(sub, i) {
			continue
		}
		r := c.Rand(sub, i)
		code := []uint64{multihash.SHA2_256, multihash.SHA2_512, multihash.IDENTITY, multihash.SHA1, multihash.DBL_SHA2_256, multihash.SHA3_256}[r.Intn(6)]
		mh, err := multihash.Sum(rbytes(r, r.Intn(64)), code, -1)
		if err != nil {
			continue
		}
		c.Cur(sub, i, hex.EncodeToString(mh))
		wit := func() any { return map[string]any{"multihash_hex": hex.EncodeToString(mh)} }
		c.Guard(sub, i, wit, func() {
			m0 := append(multihash.Multihash(nil), mh...)
			a := dhash.SecondMultihash(mh)
			b := dhash.SecondMultihash(mh)
			if !bytes.Equal(a, b) {
				c.Fail(sub, i, "second-hash-not-deterministic", "", wit())
			}
			if !bytes.Equal(m0, mh) {
				c.Fail(sub, i, "second-hash-mutates-input", "", wit())
			}
			d, err := multihash.Decode(a)
			if err != nil || d.Code != multihash.DBL_SHA2_256 || d.Length != 32 {
				c.Fail(sub, i, "second-hash-not-dbl-sha256", fmt.Sprintf("%v %+v", err, d), wit())
			}
			if bytes.Equal(a, mh) {
				c.Fail(sub, i, "second-hash-equals-input", "", wit())
			}
		})
		c.Eval(1)
		c.Distinct(sub, fmt.Sprint(code), fmt.Sprint(len(mh)))
	}
}

// concurrent callers: the package appends to package-level prefix slices; under
// the race detector any sharing shows up, and results must equal the sequential ones.
func c12Concurrent(c *vf.Ctx) {
	const sub = "concurrent"
	if !c.Active(sub) {
		return
	}
	n := c.N(16, 200)
	for i := 0; i < n; i++ {
		if !c.Mine(sub, i) {
			continue
		}
		r := c.Rand(sub, i)
		c.Cur(sub, i, "")
		type job struct {
			mh      multihash.Multihash
			payload []byte
			want2   multihash.Multihash
			wantEnc []byte
		}
		jobs := make([]job, 64)
		for k := range jobs {
			mh, _ := multihash.Sum(rbytes(r, 8+r.Intn(30)), multihash.SHA2_256, -1)
			pl := rbytes(r, r.Intn(80))
			enc, _ := dhash.EncryptValueKey(pl, mh)
			jobs[k] = job{mh, pl, dhash.SecondMultihash(mh), enc}
		}
		var wg sync.WaitGroup
		var bad sync.Map
		for g := 0; g < 8; g++ {
			wg.Add(1)
			go func(g int) {
				defer wg.Done()
				for rep := 0; rep < 20; rep++ {
					for k := g; k < len(jobs); k += 3 {
						j := jobs[k]
						if !bytes.Equal(dhash.SecondMultihash(j.mh), j.want2) {
							bad.Store("second-hash", k)
						}
						enc, err := dhash.EncryptValueKey(j.payload, j.mh)
						if err != nil || !bytes.Equal(enc, j.wantEnc) {
							bad.Store("encrypt", k)
						}
						pt, err := dhash.DecryptValueKey(j.wantEnc, j.mh)
						if err != nil || !bytes.Equal(pt, j.payload) {
							bad.Store("decrypt", k)
						}
					}
				}
			}(g)
		}
		wg.Wait()
		bad.Range(func(k, v any) bool {
			c.Fail(sub, i, "concurrent-result-differs:"+k.(string), fmt.Sprintf("job %v", v), nil)
			return true
		})
		c.Eval(8 * 20 * 21)
		c.Inc("concurrent_batches")
	}
}

// ---- end to end: reader-privacy find over a store populated through dhash ------------

type memDHStore struct {
	mu      sync.Mutex
	evks    map[string][][]byte
	md      map[string][]byte
	junkEvk [][]byte          // hostile extras returned with every lookup
	junkMd  map[string][]byte // replaced metadata answers
}

func (s *memDHStore) FindMultihash(_ context.Context, dhmh multihash.Multihash) ([]model.EncryptedMultihashResult, error) {
	s.mu.Lock()
	defer s.mu.Unlock()
	l := s.evks[string(dhmh)]
	if len(l) == 0 && len(s.junkEvk) == 0 {
		return nil, nil
	}
	all := append(append([][]byte(nil), s.junkEvk...), l...)
	return []model.EncryptedMultihashResult{{Multihash: dhmh, EncryptedValueKeys: all}}, nil
}

func (s *memDHStore) FindMetadata(_ context.Context, hvk []byte) ([]byte, error) {
	s.mu.Lock()
	defer s.mu.Unlock()
	if j, ok := s.junkMd[string(hvk)]; ok {
		return j, nil
	}
	return s.md[string(hvk)], nil
}

// ServeHTTP exposes the in-memory store the way a dhstore does (the paths the library's HTTP client requests).
func (s *memDHStore) ServeHTTP(w http.ResponseWriter, req *http.Request) {
	parts := strings.Split(strings.Trim(req.URL.Path, "/"), "/")
	switch {
	case len(parts) == 3 && parts[0] == "encrypted" && parts[1] == "multihash":
		mh, err := multihash.FromB58String(parts[2])
		if err != nil {
			http.Error(w, "bad multihash", http.StatusBadRequest)
			return
		}
		res, _ := s.FindMultihash(req.Context(), mh)
		if len(res) == 0 {
			http.Error(w, "", http.StatusNotFound)
			return
		}
		json.NewEncoder(w).Encode(model.FindResponse{EncryptedMultihashResults: res})
	case len(parts) == 2 && parts[0] == "metadata":
		hvk, err := b58.Decode(parts[1])
		if err != nil {
			http.Error(w, "bad key", http.StatusBadRequest)
			return
		}
		md, _ := s.FindMetadata(req.Context(), hvk)
		if len(md) == 0 {
			http.Error(w, "", http.StatusNotFound)
			return
		}
		json.NewEncoder(w).Encode(map[string][]byte{"EncryptedMetadata": md})
	default:
		http.Error(w, "not found", http.StatusNotFound)
	}
}

type idxEntry struct {
	pid peer.ID
	ctx []byte
	md  []byte
}

func prKey(pid peer.ID, ctx, md []byte) string {
	return pid.String() + "|" + hex.EncodeToString(ctx) + "|" + hex.EncodeToString(md)
}

func c12Find(c *vf.Ctx) {
	const sub = "find"
	if !c.Active(sub) {
		return
	}
	n := c.N(150, 20000)
	// one server per shard serves the provider records of the case being run
	var curInfos atomic.Pointer[[]*model.ProviderInfo]
	empty := []*model.ProviderInfo{}
	curInfos.Store(&empty)
	srv := newMemServer(http.HandlerFunc(func(w http.ResponseWriter, req *http.Request) {
		infos := *curInfos.Load()
		if strings.TrimSuffix(req.URL.Path, "/") == "/providers" {
			json.NewEncoder(w).Encode(infos)
			return
		}
		for _, in := range infos {
			if strings.HasSuffix(req.URL.Path, "/"+in.AddrInfo.ID.String()) {
				json.NewEncoder(w).Encode(in)
				return
			}
		}
		http.Error(w, "", http.StatusNotFound)
	}))
	defer srv.Close()
	// and one server per shard fronts the in-memory dhstore of the case being run over HTTP
	var curStore atomic.Pointer[memDHStore]
	dhsrv := newMemServer(http.HandlerFunc(func(w http.ResponseWriter, req *http.Request) {
		if st := curStore.Load(); st != nil {
			st.ServeHTTP(w, req)
			return
		}
		http.Error(w, "", http.StatusNotFound)
	}))
	defer dhsrv.Close()
	for i := 0; i < n; i++ {
		if !c.Mine(sub, i) {
			continue
		}
		r := c.Rand(sub, i)
		c.Cur(sub, i, "")
		nprov := 1 + r.Intn(4)
		provs := make([]Ident, nprov)
		usedProv := map[peer.ID]bool{}
		for k := range provs {
			for {
				if r.Intn(2) == 0 {
					provs[k] = EdIdent(r)
				} else {
					provs[k] = AnyIdent(r)
				}
				if !usedProv[provs[k].ID] {
					usedProv[provs[k].ID] = true
					break
				}
			}
		}
		nmh := 1 + r.Intn(4)
		mhs := make([]multihash.Multihash, nmh)
		index := map[string][]idxEntry{}
		store := &memDHStore{evks: map[string][][]byte{}, md: map[string][]byte{}, junkMd: map[string][]byte{}}
		mdOf := map[string][]byte{} // metadata is a function of (provider, context id)
		for k := range mhs {
			mhs[k], _ = multihash.Sum(rbytes(r, 10+k), multihash.SHA2_256, -1)
			seen := map[string]bool{}
			for e := r.Intn(4); e > 0; e-- {
				ent := idxEntry{pid: provs[r.Intn(nprov)].ID, ctx: rbytes(r, pickLen(r, 64, 0, 1, 64)), md: rbytes(r, c12MdLen(r))}
				if seen[string(ent.pid)+string(ent.ctx)] {
					continue
				}
				seen[string(ent.pid)+string(ent.ctx)] = true
				if m, ok := mdOf[string(ent.pid)+string(ent.ctx)]; ok {
					ent.md = m
				} else {
					mdOf[string(ent.pid)+string(ent.ctx)] = ent.md
				}
				index[string(mhs[k])] = append(index[string(mhs[k])], ent)
				vk := dhash.CreateValueKey(ent.pid, ent.ctx)
				evk, _ := dhash.EncryptValueKey(vk, mhs[k])
				dk := string(dhash.SecondMultihash(mhs[k]))
				store.evks[dk] = append(store.evks[dk], evk)
				emd, _ := dhash.EncryptMetadata(ent.md, vk)
				store.md[string(dhash.SHA256(vk, nil))] = emd
			}
		}
		hostile := r.Intn(2) == 0
		if hostile {
			for j := 0; j < 1+r.Intn(5); j++ {
				store.junkEvk = append(store.junkEvk, rbytes(r, []int{0, 1, 5, 11, 12, 13, 27, 28, 29, 60}[r.Intn(10)]))
			}
			// a value key encrypted for ANOTHER multihash, and a validly encrypted non-valuekey
			other, _ := multihash.Sum([]byte("other"), multihash.SHA2_256, -1)
			e1, _ := dhash.EncryptValueKey(dhash.CreateValueKey(provs[0].ID, []byte("x")), other)
			store.junkEvk = append(store.junkEvk, e1)
			c.Inc("find_hostile_stores")
		}
		withPcache := r.Intn(2) == 0
		viaHTTP := r.Intn(2) == 0 // through the library's own dhstore HTTP client instead of the Go interface
		curStore.Store(store)
		storeOpt := client.WithDHStoreAPI(store)
		if viaHTTP {
			storeOpt = client.WithDHStoreURL(dhsrv.URL)
			c.Inc("find_via_dhstore_http")
		}
		var cl *client.DHashClient
		var err error
		addrs := map[peer.ID][]multiaddr.Multiaddr{}
		if withPcache {
			infos := make([]*model.ProviderInfo, 0, nprov)
			for k, p := range provs {
				a, _ := multiaddr.NewMultiaddr(fmt.Sprintf("/ip4/8.8.%d.%d/tcp/%d", i%250, k+1, 1000+k))
				addrs[p.ID] = []multiaddr.Multiaddr{a}
				infos = append(infos, &model.ProviderInfo{AddrInfo: peer.AddrInfo{ID: p.ID, Addrs: []multiaddr.Multiaddr{a}}, LastAdvertisementTime: time.Unix(int64(1700000000+k), 0).UTC().Format(time.RFC3339)})
			}
			curInfos.Store(&infos)
			cl, err = client.NewDHashClient(storeOpt, client.WithProvidersURL(srv.URL), client.WithPcachePreload(r.Intn(2) == 0))
			c.Inc("find_with_pcache")
		} else {
			cl, err = client.NewDHashClient(storeOpt, client.WithMetadataOnly(true))
			c.Inc("find_metadata_only")
		}
		if err != nil {
			c.Fail(sub, i, "client-create", err.Error(), nil)
			continue
		}
		wit := func() any {
			m := map[string]any{"hostile_store": hostile, "with_pcache": withPcache, "via_dhstore_http": viaHTTP}
			var idx []string
			for mh, es := range index {
				for _, e := range es {
					idx = append(idx, hex.EncodeToString([]byte(mh))+" -> "+prKey(e.pid, e.ctx, e.md))
				}
			}
			sort.Strings(idx)
			m["index"] = idx
			var junk []string
			for _, j := range store.junkEvk {
				junk = append(junk, hex.EncodeToString(j))
			}
			m["junk_value_keys_hex"] = junk
			return m
		}
		// also query a multihash that was never indexed
		absent, _ := multihash.Sum([]byte(fmt.Sprint("absent", i)), multihash.SHA2_256, -1)
		queries := append(append([]multihash.Multihash(nil), mhs...), absent)
		for _, mh := range queries {
			c.Guard(sub, i, wit, func() {
				resp, err := cl.Find(context.Background(), mh)
				if err != nil {
					c.Fail(sub, i, "find-error", err.Error(), wit())
					return
				}
				var got []string
				for _, mr := range resp.MultihashResults {
					if !bytes.Equal(mr.Multihash, mh) {
						c.Fail(sub, i, "find-wrong-multihash", "", wit())
					}
					for _, pr := range mr.ProviderResults {
						got = append(got, prKey(pr.Provider.ID, pr.ContextID, pr.Metadata))
						if withPcache {
							if !maddrsEq(pr.Provider.Addrs, addrs[pr.Provider.ID]) {
								c.Fail(sub, i, "find-wrong-provider-addrs", fmt.Sprint(pr.Provider.Addrs), wit())
							}
						}
					}
				}
				var want []string
				for _, e := range index[string(mh)] {
					want = append(want, prKey(e.pid, e.ctx, e.md))
				}
				sort.Strings(got)
				sort.Strings(want)
				if strings.Join(got, "\n") != strings.Join(want, "\n") {
					c.Fail(sub, i, "find-result-set-differs", fmt.Sprintf("mh=%x\n got=%v\nwant=%v", []byte(mh), got, want), wit())
				}
				if len(want) > 0 {
					c.Inc("find_nonempty_results")
				}
			})
			c.Eval(1)
		}
		// garbled metadata answers: the affected entry is skipped, the rest stays
		if hostile && len(index[string(mhs[0])]) > 0 {
			e0 := index[string(mhs[0])][0]
			vk := dhash.CreateValueKey(e0.pid, e0.ctx)
			store.mu.Lock()
			store.junkMd[string(dhash.SHA256(vk, nil))] = rbytes(r, []int{1, 5, 11, 12, 13, 28, 40}[r.Intn(7)])
			store.mu.Unlock()
			c.Guard(sub, i, wit, func() {
				resp, err := cl.Find(context.Background(), mhs[0])
				if err != nil {
					c.Fail(sub, i, "find-error-garbled-metadata", err.Error(), wit())
					return
				}
				cnt := 0
				for _, mr := range resp.MultihashResults {
					for _, pr := range mr.ProviderResults {
						cnt++
						if pr.Provider.ID == e0.pid && bytes.Equal(pr.ContextID, e0.ctx) {
							c.Fail(sub, i, "garbled-metadata-returned", hex.EncodeToString(pr.Metadata), wit())
						}
					}
				}
				if cnt != len(index[string(mhs[0])])-1 {
					c.Fail(sub, i, "garbled-metadata-dropped-others", fmt.Sprintf("got %d want %d", cnt, len(index[string(mhs[0])])-1), wit())
				}
			})
			c.Inc("find_garbled_metadata")
			c.Eval(1)
		}
		c.Distinct(sub, fmt.Sprint(nprov, nmh, hostile, withPcache, len(index)))
		if c.WantSample(sub) {
			c.Sample(sub, wit())
		}
	}
}

func maddrsEq(a, b []multiaddr.Multiaddr) bool {
	if len(a) != len(b) {
		return false
	}
	for i := range a {
		if !a[i].Equal(b[i]) {
			return false
		}
	}
	return true
}
