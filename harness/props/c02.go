package props

import (
	"bytes"
	"context"
	"crypto/sha256"
	"errors"
	"fmt"
	"github.com/ipld/go-ipld-prime/datamodel"
	"hash"
	"math/rand"
	"strings"
	"sync"
	"time"

	"github.com/ipld/go-ipld-prime"
	"github.com/ipni/go-libipni/ingest/schema"

	"github.com/ipfs/go-cid"
	cidlink "github.com/ipld/go-ipld-prime/linking/cid"
	"github.com/ipni/go-libipni/dagsync"
	"github.com/libp2p/go-libp2p/core/peer"
	"github.com/multiformats/go-multiaddr"
	"github.com/multiformats/go-multihash"

	"verif/harness/vf"
)

func init() { Registry["C02"] = runC02 }

type c02Prefix struct {
	name   string
	mhType uint64
	mhLen  int
}

var c02Prefixes = []c02Prefix{
	{"sha2-256", multihash.SHA2_256, -1},
	{"sha2-256/20", multihash.SHA2_256, 20},
	{"sha2-256/16", multihash.SHA2_256, 16},
	{"sha2-512", multihash.SHA2_512, -1},
	{"sha1", multihash.SHA1, -1},
	{"sha3-256", multihash.SHA3_256, -1},
	{"blake3", multihash.BLAKE3, 32},
	{"identity", multihash.IDENTITY, -1},
}

type c02Env struct {
	pfx    c02Prefix
	pub    *Store
	chain  *Chain
	front  *Front // may corrupt
	front2 *Front // second address of the same publisher, always honest unless planned
	id     Ident
}

var c02MutKinds = []string{"bitflip", "bytesub", "truncate", "truncate-0", "append", "other-block", "empty", "oversized", "prefix-of-other", "dup-body", "cut-mid-body", "append-whitespace", "prepend-whitespace", "redirect-to-other-block"}

// c02Mutate returns the corrupted body (different from orig) or nil.
func c02Mutate(r *rand.Rand, kind string, orig []byte, other []byte) []byte {
	var out []byte
	switch kind {
	case "bitflip":
		out = append([]byte(nil), orig...)
		out[r.Intn(len(out))] ^= 1 << uint(r.Intn(8))
	case "bytesub":
		out = append([]byte(nil), orig...)
		i := r.Intn(len(out))
		out[i] = out[i] + 1 + byte(r.Intn(254))
	case "truncate":
		out = append([]byte(nil), orig[:r.Intn(len(orig))]...)
	case "truncate-0", "empty":
		out = []byte{}
	case "append":
		out = append(append([]byte(nil), orig...), rbytes(r, 1+r.Intn(16))...)
	case "append-whitespace":
		// what a text-oriented host or proxy may add to a JSON document (a JSON decoder does not mind)
		out = append(append([]byte(nil), orig...), []string{"\n", "\r\n", "\n\n", " ", "\t", " \n"}[r.Intn(6)]...)
	case "prepend-whitespace":
		out = append([]byte([]string{"\n", " ", "\xef\xbb\xbf"}[r.Intn(3)]), orig...)
	case "other-block":
		out = append([]byte(nil), other...)
	case "oversized":
		out = append(append([]byte(nil), orig...), bytes.Repeat([]byte{' '}, 4<<20)...)
	case "prefix-of-other":
		out = append(append([]byte(nil), orig...), other...)
	case "dup-body":
		out = append(append([]byte(nil), orig...), orig...)
	}
	if bytes.Equal(out, orig) {
		return nil
	}
	return out
}

var errNoNotification = errors.New("no SyncFinished notification within 60 s of the announcement")

func runC02(c *vf.Ctx) {
	c02BigBlocks(c)
	c02Corrupt(c)
	c02Branching(c)
	c02OtherFunction(c)
	c02PrivateFunction(c)
}

// blocks whose encoded size is exactly a power of two (or one byte off): typical values of size caps
func c02BigBlocks(c *vf.Ctx) {
	const sub = "big-blocks"
	if !c.Active(sub) {
		return
	}
	id := Keys()["ed25519"][3]
	idx := 0
	for _, base := range []int{1 << 16, 1 << 20, 1 << 21, 1 << 22, 1 << 23} {
		for _, off := range []int{-1, 0, 1} {
			for _, kind := range []string{"append", "oversized", "truncate"} {
				i := idx
				idx++
				if !c.Mine(sub, i) {
					continue
				}
				target := base + off
				r := c.Rand(sub, i)
				c.Cur(sub, i, fmt.Sprintf("block of %d bytes, %s", target, kind))
				pub := NewStore()
				// tail advertisement padded to the exact size
				mk := func(pad int) (cid.Cid, int) {
					ad := schema.Advertisement{Provider: id.ID.String(), Addresses: []string{strings.Repeat("a", pad)}, Entries: schema.NoEntries, ContextID: []byte("ctx"), Metadata: []byte("md"), Signature: []byte("sig")}
					nd, _ := ad.ToNode()
					l, err := pub.Lsys.Store(ipld.LinkContext{}, linkProto(multihash.SHA2_256, -1), nd)
					if err != nil {
						return cid.Undef, 0
					}
					raw, _ := pub.Raw(l.(cidlink.Link).Cid)
					return l.(cidlink.Link).Cid, len(raw)
				}
				_, s0 := mk(0)
				big, sz := mk(target - s0)
				if sz != target {
					c.Fail(sub, i, "harness-block-size", fmt.Sprintf("%d != %d", sz, target), nil)
					continue
				}
				ch := &Chain{Proto: linkProto(multihash.SHA2_256, -1), Cids: []cid.Cid{big}}
				if err := ExtendChain(r, pub, ch, 1, id.ID); err != nil {
					c.Fail(sub, i, "harness-chain", err.Error(), nil)
					continue
				}
				front, err := NewFront(c, id, pub, MountPlain, "")
				if err != nil {
					c.Fail(sub, i, "harness-front", err.Error(), nil)
					continue
				}
				front.Pub.SetRoot(ch.Head())
				hit := 0
				front.Plan = func(ev ReqEvent) *Fault {
					if ev.Rsrc != big.String() {
						return nil
					}
					return &Fault{Label: kind, Mutate: func(orig []byte) []byte {
						hit++
						return c02Mutate(rand.New(rand.NewSource(int64(i))), kind, orig, nil)
					}}
				}
				dst := NewStore()
				hl := &hookLog{}
				s, err := newSubscriber(dst, dagsync.BlockHook(adPrevHook(dst, hl)), dagsync.HttpTimeout(60*time.Second))
				if err != nil {
					front.Close()
					continue
				}
				wit := func() any {
					return map[string]any{"block_size": target, "corruption": kind, "hooks": idxList(ch, hl.list())}
				}
				c.Guard(sub, i, wit, func() {
					_, err := s.SyncAdChain(context.Background(), front.AddrInfo())
					n, bad := dst.Audit()
					c.Add("audited_store_entries", int64(n))
					if len(bad) > 0 {
						c.Fail(sub, i, "store-holds-block-not-matching-its-cid:"+kind, fmt.Sprintf("block of %d bytes: %v", target, bad), wit())
					}
					if hit > 0 && err == nil {
						c.Fail(sub, i, "corrupted-sync-succeeded:"+kind, fmt.Sprintf("block of %d bytes", target), wit())
					}
					for _, h := range hl.list() {
						if h.Equals(big) {
							c.Fail(sub, i, "corrupted-block-reported:"+kind, "", wit())
						}
					}
					// and the intact block of that size syncs
					front.Plan = nil
					if _, err := s.SyncAdChain(context.Background(), front.AddrInfo()); err != nil {
						c.Fail(sub, i, "honest-sync-failed", fmt.Sprintf("block of %d bytes: %v", target, err), wit())
					}
					if raw, ok := dst.Raw(big); !ok || len(raw) != target {
						c.Fail(sub, i, "store-differs-from-fault-free-run", fmt.Sprintf("block of %d bytes", target), wit())
					}
				})
				s.Close()
				front.Close()
				c.Eval(2)
				c.Inc("big_block_cases")
				c.Distinct(sub, fmt.Sprint(target), kind)
			}
		}
	}
}

func c02Corrupt(c *vf.Ctx) {
	const sub = "corrupt-sync"
	if !c.Active(sub) && !c.Active("failing-store") {
		return
	}
	r0 := c.Rand(sub, -1)
	var envs []*c02Env
	for _, p := range c02Prefixes {
		e := &c02Env{pfx: p, pub: NewStore(), id: Keys()["ed25519"][3]}
		var err error
		e.chain, err = NewChain(r0, e.pub, 5, e.id.ID, linkProto(p.mhType, p.mhLen))
		if err != nil {
			c.Note("prefix %s not usable with the default link system: %v", p.name, err)
			continue
		}
		e.front, err = NewFront(c, e.id, e.pub, MountPlain, "")
		if err == nil {
			e.front2, err = NewFront(c, e.id, e.pub, MountPlain, "")
		}
		if err != nil {
			c.Fail(sub, -1, "harness-env", err.Error(), nil)
			return
		}
		defer e.front.Close()
		defer e.front2.Close()
		envs = append(envs, e)
	}
	n := c.N(2000, 150000)
	if !c.Active(sub) {
		n = 0
	}
	for i := 0; i < n; i++ {
		if !c.Mine(sub, i) {
			continue
		}
		r := c.Rand(sub, i)
		e := envs[r.Intn(len(envs))]
		L := 1 + r.Intn(5)
		headIdx := L - 1
		pos := r.Intn(L) // which block request (newest first) is corrupted: chain index headIdx-pos
		kind := c02MutKinds[r.Intn(len(c02MutKinds))]
		announced := r.Intn(3) == 0
		seg := int64(0)
		if r.Intn(3) == 0 {
			seg = int64(1 + r.Intn(L))
		}
		twoAddrs := r.Intn(4) == 0
		trusted := r.Intn(3) == 0
		desc := fmt.Sprintf("hash=%s L=%d corrupt-request=%d(%s) announced=%v seg=%d two-addresses=%v trusted-local-storage=%v", e.pfx.name, L, pos, kind, announced, seg, twoAddrs, trusted)
		c.Cur(sub, i, desc)
		target := e.chain.Cids[headIdx-pos]
		otherIdx := (headIdx - pos + 1 + r.Intn(4)) % 5
		if otherIdx == headIdx-pos {
			otherIdx = (otherIdx + 1) % 5
		}
		hit := 0
		var served [][]byte
		var cutRest []byte // for cut-mid-body: what the connection would have carried after the cut
		mk := func(tc cid.Cid, rr *rand.Rand) func(ev ReqEvent) *Fault {
			return func(ev ReqEvent) *Fault {
				if ev.Rsrc != tc.String() {
					return nil
				}
				if kind == "redirect-to-other-block" {
					// the request is answered with a redirect to another, genuine block of the same chain: what
					// the client ends up reading is intact, but it is not the block it asked for
					other, _ := httpBodyOf(e, e.chain.Cids[otherIdx])
					hit++
					served = append(served, other)
					return &Fault{Label: kind, Redirect: e.chain.Cids[otherIdx].String()}
				}
				if kind == "cut-mid-body" {
					// the full length is announced, the connection is cut after k bytes: a read error mid-body
					body, _ := e.pub.Raw(tc)
					if len(body) < 2 {
						return nil
					}
					k := 1 + rr.Intn(len(body)-1)
					hit++
					served = append(served, body[:k])
					cutRest = append([]byte(nil), body[k:]...)
					return &Fault{Label: kind, Truncate: k}
				}
				return &Fault{Label: kind, Mutate: func(orig []byte) []byte {
					other, _ := httpBodyOf(e, e.chain.Cids[otherIdx])
					m := c02Mutate(rr, kind, orig, other)
					if m == nil {
						return orig
					}
					hit++
					served = append(served, m)
					return m
				}}
			}
		}
		e.front.ResetLog()
		e.front2.ResetLog()
		e.front.Plan = mk(target, rand.New(rand.NewSource(r.Int63())))
		e.front2.Plan = nil
		e.front.Pub.SetRoot(e.chain.Cids[headIdx])
		e.front2.Pub.SetRoot(e.chain.Cids[headIdx])

		dst := NewStore()
		if trusted {
			// the application declares its own store trusted (no re-hashing on load); what arrives from the
			// network is no less untrusted for that
			dst.Lsys.TrustedStorage = true
			c.Inc("subscriber_link_system_marked_trusted")
		}
		hl := &hookLog{}
		opts := []dagsync.Option{dagsync.BlockHook(adPrevHook(dst, hl))}
		if seg != 0 {
			opts = append(opts, dagsync.SegmentDepthLimit(seg))
		}
		if announced {
			opts = append(opts, dagsync.RecvAnnounce(""))
		}
		s, err := newSubscriber(dst, opts...)
		if err != nil {
			c.Fail(sub, i, "harness-subscriber", err.Error(), nil)
			continue
		}
		evs, cancel := s.OnSyncFinished()
		pi := e.front.AddrInfo()
		if twoAddrs {
			pi.Addrs = []multiaddr.Multiaddr{e.front.Addr, e.front2.Addr}
		}
		var phases []string
		wit := func() any {
			var sv []string
			for _, b := range served {
				if len(b) > 200 {
					sv = append(sv, fmt.Sprintf("%d bytes: %q…", len(b), b[:200]))
				} else {
					sv = append(sv, fmt.Sprintf("%q", b))
				}
			}
			return map[string]any{"case": desc, "corrupted_cid": target.String(), "served_instead": sv, "phases": phases, "hooks": idxList(e.chain, hl.list()),
				"requests_addr1": BlockRequests(e.front.Log()), "requests_addr2": BlockRequests(e.front2.Log())}
		}
		// auditing helper: every stored block must hash to its key; hooks must only name intact, stored blocks
		audit := func(phase string) {
			n, bad := dst.Audit()
			c.Add("audited_store_entries", int64(n))
			if len(bad) > 0 {
				c.Fail(sub, i, "store-holds-block-not-matching-its-cid:"+kind, fmt.Sprintf("%s: %v", phase, bad), wit())
			}
			// ... and nothing but blocks of the chain that was asked for: bytes that were refused are not kept
			// under some other name either
			for _, kc := range dst.Keys() {
				if e.chain.Pos(kc) < 0 {
					c.Fail(sub, i, "store-holds-content-that-was-never-requested:"+kind, fmt.Sprintf("%s: %s", phase, kc), wit())
					break
				}
			}
			for _, h := range hl.list() {
				raw, ok := dst.Raw(h)
				want, _ := e.pub.Raw(h)
				if !ok || !bytes.Equal(raw, want) {
					c.Fail(sub, i, "hook-for-block-not-intact-in-store:"+kind, fmt.Sprintf("%s: %s", phase, h), wit())
				}
			}
		}
		doSync := func() (cid.Cid, error) {
			if announced {
				if err := s.Announce(context.Background(), e.chain.Cids[headIdx], pi); err != nil {
					return cid.Undef, err
				}
				select {
				case ev := <-evs:
					return ev.Cid, ev.Err
				case <-time.After(60 * time.Second):
					return cid.Undef, errNoNotification
				}
			}
			return s.SyncAdChain(context.Background(), pi)
		}
		c.Guard(sub, i, wit, func() {
			// phase 1: corrupted
			_, err := doSync()
			if err == errNoNotification {
				c.Fail(sub, i, "no-notification-after-announce", "", wit())
				return
			}
			phase1Err := err
			phases = append(phases, fmt.Sprintf("corrupted sync: err=%v fault-hit=%d", err, hit))
			audit("after corrupted sync")
			if hit > 0 {
				c.Inc("corrupted_response_consumed")
			}
			// With a second, honest address a client may legitimately recover from the bad
			// response; then only the audit applies. With one address no intact copy exists.
			if hit > 0 && !twoAddrs {
				if err == nil {
					c.Fail(sub, i, "corrupted-sync-succeeded:"+kind, fmt.Sprintf("hash %s", e.pfx.name), wit())
				}
				for _, h := range hl.list() {
					if h.Equals(target) {
						c.Fail(sub, i, "corrupted-block-reported:"+kind, target.String(), wit())
					}
				}
				if l := s.GetLatestSync(e.id.ID); l != nil {
					c.Fail(sub, i, "corrupted-sync-set-latest:"+kind, l.String(), wit())
				}
			} else if hit == 0 && err != nil {
				c.Fail(sub, i, "honest-sync-failed", err.Error(), wit())
			}
			// phase 1b: after a response that broke off mid-body, the next answer for the same CID carries only
			// the remainder (a verifier that keeps state across requests would accept it)
			if kind == "cut-mid-body" && hit > 0 && cutRest != nil && !(announced && phase1Err == nil) {
				rest := cutRest
				e.front.Plan = func(ev ReqEvent) *Fault {
					if ev.Rsrc != target.String() {
						return nil
					}
					return &Fault{Label: "remainder-only", Body: rest}
				}
				hl.reset()
				_, err1b := doSync()
				if err1b == errNoNotification {
					c.Fail(sub, i, "no-notification-after-reannounce", "remainder-only phase", wit())
					return
				}
				phases = append(phases, fmt.Sprintf("remainder-only answer (%d bytes): err=%v", len(rest), err1b))
				audit("after remainder-only answer")
				c.Inc("remainder_only_answers")
				if !twoAddrs {
					if err1b == nil {
						c.Fail(sub, i, "corrupted-sync-succeeded:remainder-only", fmt.Sprintf("hash %s", e.pfx.name), wit())
					}
					for _, h := range hl.list() {
						if h.Equals(target) {
							c.Fail(sub, i, "corrupted-block-reported:remainder-only", target.String(), wit())
						}
					}
				}
				phase1Err = err1b
			}
			// phase 2: honest retry (a re-announcement of a head that was synced successfully is
			// legitimately ignored as already seen, so there is nothing to retry in that case)
			e.front.Plan = nil
			hl.reset()
			got, err := e.chain.Cids[headIdx], error(nil)
			if !(announced && phase1Err == nil) {
				got, err = doSync()
			}
			if err == errNoNotification {
				c.Fail(sub, i, "no-notification-after-reannounce", "", wit())
				return
			}
			phases = append(phases, fmt.Sprintf("honest retry: err=%v", err))
			audit("after honest retry")
			if err != nil || !got.Equals(e.chain.Cids[headIdx]) {
				if hit > 0 || err != nil {
					c.Fail(sub, i, "honest-retry-failed:"+kind, fmt.Sprint(err), wit())
				}
			}
			for x := 0; x <= headIdx; x++ {
				raw, ok := dst.Raw(e.chain.Cids[x])
				want, _ := e.pub.Raw(e.chain.Cids[x])
				if !ok || !bytes.Equal(raw, want) {
					c.Fail(sub, i, "store-differs-from-fault-free-run", fmt.Sprintf("block %d", x), wit())
					break
				}
			}
			// phase 3: corrupt another position of a resync
			hit = 0
			hl.reset()
			pos2 := r.Intn(L)
			t2 := e.chain.Cids[headIdx-pos2]
			e.front.Plan = mk(t2, rand.New(rand.NewSource(r.Int63())))
			dst.Mem.Delete(cidlink.Link{Cid: t2}.Binary())
			if !announced {
				_, err = s.SyncAdChain(context.Background(), pi, dagsync.WithAdsResync(true))
				phases = append(phases, fmt.Sprintf("resync with request for block %d corrupted: err=%v fault-hit=%d", headIdx-pos2, err, hit))
				audit("after corrupted resync")
				if hit > 0 && err == nil && !twoAddrs {
					c.Fail(sub, i, "corrupted-resync-succeeded:"+kind, "", wit())
				}
			}
		})
		cancel()
		s.Close()
		e.front.Plan = nil
		c.Eval(3)
		c.Distinct(sub, e.pfx.name, kind, fmt.Sprint(pos), fmt.Sprint(announced, seg != 0, twoAddrs))
		c.Inc("hash_" + e.pfx.name)
		c.Inc("mut_" + kind)
		if twoAddrs {
			c.Inc("two_address_cases")
		}
		if c.WantSample(sub) && kind == "other-block" {
			c.Sample(sub, wit())
		}
	}
	c02FailingStore(c, envs)
}

// httpBodyOf returns the bytes the publisher serves for a block.
// c02FailingStore: the local store fails part-way through writing one block (out of space). Whatever the
// subscriber does with that, nothing that does not hash to its CID may be committed, reported or counted.
func c02FailingStore(c *vf.Ctx, envs []*c02Env) {
	const sub = "failing-store"
	if !c.Active(sub) {
		return
	}
	n := c.N(600, 60000)
	for i := 0; i < n; i++ {
		if !c.Mine(sub, i) {
			continue
		}
		r := c.Rand(sub, i)
		e := envs[r.Intn(len(envs))]
		L := 1 + r.Intn(5)
		headIdx := L - 1
		at := r.Intn(L)
		capB := r.Intn(260)
		if r.Intn(4) == 0 {
			capB = r.Intn(40000) // beyond any write buffer a client may put in front of the store
		}
		seg := int64(0)
		if r.Intn(3) == 0 {
			seg = int64(1 + r.Intn(L))
		}
		desc := fmt.Sprintf("hash=%s L=%d store-write-fails-at-block-write=%d after=%dB seg=%d", e.pfx.name, L, at, capB, seg)
		c.Cur(sub, i, desc)
		e.front.ResetLog()
		e.front.Plan = nil
		e.front.Pub.SetRoot(e.chain.Cids[headIdx])
		dst := NewStore()
		hl := &hookLog{}
		opts := []dagsync.Option{dagsync.BlockHook(adPrevHook(dst, hl))}
		if seg != 0 {
			opts = append(opts, dagsync.SegmentDepthLimit(seg))
		}
		s, err := newSubscriber(dst, opts...)
		if err != nil {
			c.Fail(sub, i, "harness-subscriber", err.Error(), nil)
			continue
		}
		var phases []string
		wit := func() any {
			return map[string]any{"case": desc, "phases": phases, "hooks": idxList(e.chain, hl.list())}
		}
		audit := func(phase string) {
			n, bad := dst.Audit()
			c.Add("audited_store_entries", int64(n))
			if len(bad) > 0 {
				c.Fail(sub, i, "store-holds-block-not-matching-its-cid:store-write-failed", fmt.Sprintf("%s: %v", phase, bad), wit())
			}
			for _, h := range hl.list() {
				raw, ok := dst.Raw(h)
				want, _ := e.pub.Raw(h)
				if !ok || !bytes.Equal(raw, want) {
					c.Fail(sub, i, "hook-for-block-not-intact-in-store:store-write-failed", fmt.Sprintf("%s: %s", phase, h), wit())
				}
			}
		}
		c.Guard(sub, i, wit, func() {
			dst.SetWriteFault(at, capB)
			_, err := s.SyncAdChain(context.Background(), e.front.AddrInfo())
			hit := dst.WriteFaultHits()
			phases = append(phases, fmt.Sprintf("sync with failing store: err=%v write-faults=%d", err, hit))
			audit("after sync with failing store")
			if hit > 0 {
				c.Inc("store_write_faults_hit")
				if err == nil {
					c.Fail(sub, i, "sync-succeeded-although-store-write-failed", "", wit())
				}
				if l := s.GetLatestSync(e.id.ID); l != nil {
					c.Fail(sub, i, "latest-set-although-store-write-failed", l.String(), wit())
				}
			} else if err != nil {
				c.Fail(sub, i, "honest-sync-failed", err.Error(), wit())
			}
			dst.SetWriteFault(-1, 0)
			hl.reset()
			got, err := s.SyncAdChain(context.Background(), e.front.AddrInfo())
			phases = append(phases, fmt.Sprintf("retry with working store: err=%v", err))
			audit("after retry")
			if err != nil || !got.Equals(e.chain.Cids[headIdx]) {
				c.Fail(sub, i, "retry-with-working-store-failed", fmt.Sprint(err), wit())
			}
			for x := 0; x <= headIdx; x++ {
				raw, ok := dst.Raw(e.chain.Cids[x])
				want, _ := e.pub.Raw(e.chain.Cids[x])
				if !ok || !bytes.Equal(raw, want) {
					c.Fail(sub, i, "store-differs-from-fault-free-run", fmt.Sprintf("block %d", x), wit())
					break
				}
			}
		})
		s.Close()
		c.Eval(2)
		c.Distinct(sub, e.pfx.name, fmt.Sprint(at, capB/64, seg != 0))
	}
}

func httpBodyOf(e *c02Env, c cid.Cid) ([]byte, error) {
	return httpGet(e.front2.URL.JoinPath("/ipni/v1/ad", c.String()).String())
}

var _ = peer.ID("")
var _ = vf.Returned

// c02Branching: the subscriber follows every link of an advertisement (StrictAdsSelector(false)), so one block has
// several links — its entry chunks and its predecessor — and a bad answer for one of them is followed by good
// answers for its siblings. The sync must fail all the same.
func c02Branching(c *vf.Ctx) {
	const sub = "branching-traversal"
	if !c.Active(sub) {
		return
	}
	r0 := c.Rand(sub, -1)
	id := Keys()["ed25519"][2]
	pub := NewStore()
	proto := linkProto(multihash.SHA2_256, -1)
	ch := &Chain{Proto: proto}
	var all [][]cid.Cid // per advertisement: the ad, then its entry chunks from the first to the last
	for k := 0; k < 4; k++ {
		ech, err := NewEntryChain(r0, pub, 1+r0.Intn(3), proto)
		if err != nil {
			c.Fail(sub, -1, "harness-env", err.Error(), nil)
			return
		}
		ad := schema.Advertisement{Provider: id.ID.String(), Addresses: []string{"/ip4/8.8.8.8/tcp/1234"}, Entries: cidlink.Link{Cid: ech.Head()},
			ContextID: rbytes(r0, 6), Metadata: rbytes(r0, 4), Signature: rbytes(r0, 8)}
		if len(ch.Cids) > 0 {
			ad.PreviousID = cidlink.Link{Cid: ch.Head()}
		}
		nd, err := ad.ToNode()
		if err != nil {
			c.Fail(sub, -1, "harness-env", err.Error(), nil)
			return
		}
		l, err := pub.Lsys.Store(ipld.LinkContext{}, proto, nd)
		if err != nil {
			c.Fail(sub, -1, "harness-env", err.Error(), nil)
			return
		}
		ch.Cids = append(ch.Cids, l.(cidlink.Link).Cid)
		blocks := []cid.Cid{ch.Head()}
		for x := len(ech.Cids) - 1; x >= 0; x-- {
			blocks = append(blocks, ech.Cids[x])
		}
		all = append(all, blocks)
	}
	front, err := NewFront(c, id, pub, MountPlain, "")
	if err != nil {
		c.Fail(sub, -1, "harness-env", err.Error(), nil)
		return
	}
	defer front.Close()
	n := c.N(300, 20000)
	for i := 0; i < n; i++ {
		if !c.Mine(sub, i) {
			continue
		}
		r := c.Rand(sub, i)
		headIdx := r.Intn(len(all))
		var reach []cid.Cid
		for x := headIdx; x >= 0; x-- {
			reach = append(reach, all[x]...)
		}
		tpos := r.Intn(len(reach))
		target := reach[tpos]
		other := reach[(tpos+1+r.Intn(len(reach)-1))%len(reach)]
		kind := c02MutKinds[r.Intn(len(c02MutKinds))]
		if kind == "cut-mid-body" || kind == "redirect-to-other-block" {
			kind = "bitflip"
		}
		announced := r.Intn(3) == 0
		desc := fmt.Sprintf("advertisements=%d blocks-reachable=%d corrupted=%d(%s) announced=%v", headIdx+1, len(reach), tpos, kind, announced)
		c.Cur(sub, i, desc)
		hit := 0
		var served []byte
		mr := rand.New(rand.NewSource(r.Int63()))
		front.ResetLog()
		front.Pub.SetRoot(ch.Cids[headIdx])
		front.Plan = func(ev ReqEvent) *Fault {
			if ev.Rsrc != target.String() {
				return nil
			}
			return &Fault{Label: kind, Mutate: func(orig []byte) []byte {
				ob, _ := pub.Raw(other)
				m := c02Mutate(mr, kind, orig, ob)
				if m == nil {
					return orig
				}
				hit++
				served = m
				return m
			}}
		}
		dst := NewStore()
		var hmu sync.Mutex
		var hooks []cid.Cid
		opts := []dagsync.Option{dagsync.StrictAdsSelector(false), dagsync.BlockHook(func(_ peer.ID, cd cid.Cid, _ dagsync.SegmentSyncActions) {
			hmu.Lock()
			hooks = append(hooks, cd)
			hmu.Unlock()
		})}
		if announced {
			opts = append(opts, dagsync.RecvAnnounce(""))
		}
		s, err := newSubscriber(dst, opts...)
		if err != nil {
			c.Fail(sub, i, "harness-subscriber", err.Error(), nil)
			continue
		}
		evs, cancel := s.OnSyncFinished()
		var phases []string
		wit := func() any {
			sv := fmt.Sprintf("%q", served)
			if len(served) > 200 {
				sv = fmt.Sprintf("%d bytes: %q…", len(served), served[:200])
			}
			hmu.Lock()
			var hs []string
			for _, h := range hooks {
				hs = append(hs, h.String())
			}
			hmu.Unlock()
			return map[string]any{"case": desc, "corrupted_cid": target.String(), "served_instead": sv, "phases": phases, "hooks": hs, "requests": BlockRequests(front.Log())}
		}
		doSync := func() (cid.Cid, error) {
			if announced {
				if err := s.Announce(context.Background(), ch.Cids[headIdx], front.AddrInfo()); err != nil {
					return cid.Undef, err
				}
				select {
				case ev := <-evs:
					return ev.Cid, ev.Err
				case <-time.After(60 * time.Second):
					return cid.Undef, errNoNotification
				}
			}
			return s.SyncAdChain(context.Background(), front.AddrInfo())
		}
		audit := func(phase string) {
			n, bad := dst.Audit()
			c.Add("audited_store_entries", int64(n))
			if len(bad) > 0 {
				c.Fail(sub, i, "store-holds-block-not-matching-its-cid:"+kind, fmt.Sprintf("%s: %v", phase, bad), wit())
			}
			for _, kc := range dst.Keys() {
				known := false
				for _, b := range reach {
					known = known || b.Equals(kc)
				}
				if !known {
					c.Fail(sub, i, "store-holds-content-that-was-never-requested:"+kind, fmt.Sprintf("%s: %s", phase, kc), wit())
					break
				}
			}
		}
		c.Guard(sub, i, wit, func() {
			_, err := doSync()
			if err == errNoNotification {
				c.Fail(sub, i, "no-notification-after-announce", "", wit())
				return
			}
			phases = append(phases, fmt.Sprintf("corrupted sync: err=%v fault-hit=%d", err, hit))
			audit("after corrupted sync")
			if hit == 0 {
				if err != nil {
					c.Fail(sub, i, "honest-sync-failed", err.Error(), wit())
				}
				return
			}
			c.Inc("corrupted_response_among_sibling_links")
			if err == nil {
				c.Fail(sub, i, "corrupted-sync-succeeded:"+kind, "a block with several links: one answer corrupted, its siblings intact", wit())
			}
			hmu.Lock()
			for _, h := range hooks {
				if h.Equals(target) {
					c.Fail(sub, i, "corrupted-block-reported:"+kind, target.String(), wit())
				}
			}
			hooks = nil
			hmu.Unlock()
			if l := s.GetLatestSync(id.ID); l != nil {
				c.Fail(sub, i, "corrupted-sync-set-latest:"+kind, l.String(), wit())
			}
			if _, ok := dst.Raw(target); ok {
				c.Fail(sub, i, "corrupted-block-stored:"+kind, target.String(), wit())
			}
			if announced && err == nil {
				return
			}
			// honest retry: everything reachable is fetched and stored
			front.Plan = nil
			got, err := doSync()
			if err == errNoNotification {
				c.Fail(sub, i, "no-notification-after-reannounce", "", wit())
				return
			}
			phases = append(phases, fmt.Sprintf("honest retry: err=%v", err))
			audit("after honest retry")
			if err != nil || !got.Equals(ch.Cids[headIdx]) {
				c.Fail(sub, i, "honest-retry-failed:"+kind, fmt.Sprint(err), wit())
				return
			}
			for _, b := range reach {
				raw, ok := dst.Raw(b)
				want, _ := pub.Raw(b)
				if !ok || !bytes.Equal(raw, want) {
					c.Fail(sub, i, "store-differs-from-fault-free-run", b.String(), wit())
					break
				}
			}
		})
		cancel()
		s.Close()
		front.Plan = nil
		c.Eval(2)
		c.Distinct(sub, kind, fmt.Sprint(headIdx, tpos, announced))
	}
}

// c02OtherFunction: a chain whose links name different hash functions, and one link whose digest is the digest of the
// served bytes under ANOTHER function than the one its CID names (the function of the block fetched just before). The
// bytes do not hash to that CID, whatever was computed for its neighbours.
func c02OtherFunction(c *vf.Ctx) {
	const sub = "digest-of-another-function"
	if !c.Active(sub) {
		return
	}
	id := Keys()["ed25519"][1]
	n := c.N(60, 3000)
	for i := 0; i < n; i++ {
		if !c.Mine(sub, i) {
			continue
		}
		r := c.Rand(sub, i)
		named := []uint64{multihash.SHA3_256, multihash.BLAKE3, multihash.SHA2_256}[i%3]    // the function the bad CID names
		actual := []uint64{multihash.SHA2_256, multihash.SHA2_256, multihash.SHA3_256}[i%3] // the function its digest was made with
		announced := r.Intn(3) == 0
		desc := fmt.Sprintf("cid-names=%#x digest-made-with=%#x announced=%v", named, actual, announced)
		c.Cur(sub, i, desc)
		pub := NewStore()
		// block 0 (oldest), stored honestly under the function the head also uses
		ch, err := NewChain(r, pub, 1, id.ID, linkProto(actual, -1))
		if err != nil {
			c.Note("function %#x not usable with the default link system: %v", actual, err)
			continue
		}
		body0, _ := pub.Raw(ch.Cids[0])
		sum, err := multihash.Sum(body0, actual, -1)
		if err != nil {
			continue
		}
		dm, _ := multihash.Decode(sum)
		fakeMh, err := multihash.Encode(dm.Digest, named)
		if err != nil {
			continue
		}
		fake := cid.NewCidV1(cid.DagJSON, fakeMh)
		// block 1 (head) links to block 0 through the CID with the mismatched function
		ad := schema.Advertisement{Provider: id.ID.String(), Addresses: []string{"/ip4/8.8.8.8/tcp/1234"}, Entries: schema.NoEntries,
			ContextID: rbytes(r, 6), Metadata: rbytes(r, 4), Signature: rbytes(r, 8), PreviousID: cidlink.Link{Cid: fake}}
		nd, err := ad.ToNode()
		if err != nil {
			c.Fail(sub, i, "harness-env", err.Error(), nil)
			continue
		}
		l, err := pub.Lsys.Store(ipld.LinkContext{}, linkProto(actual, -1), nd)
		if err != nil {
			c.Fail(sub, i, "harness-env", err.Error(), nil)
			continue
		}
		headCid := l.(cidlink.Link).Cid
		front, err := NewFront(c, id, pub, MountPlain, "")
		if err != nil {
			c.Fail(sub, i, "harness-env", err.Error(), nil)
			continue
		}
		front.Pub.SetRoot(headCid)
		served := 0
		front.Plan = func(ev ReqEvent) *Fault {
			if ev.Rsrc == fake.String() {
				served++
				return &Fault{Body: body0, Label: "bytes-of-the-honest-block"}
			}
			return nil
		}
		dst := NewStore()
		var hmu sync.Mutex
		var hooks []cid.Cid
		opts := []dagsync.Option{dagsync.BlockHook(func(_ peer.ID, cd cid.Cid, _ dagsync.SegmentSyncActions) {
			hmu.Lock()
			hooks = append(hooks, cd)
			hmu.Unlock()
		})}
		if announced {
			opts = append(opts, dagsync.RecvAnnounce(""))
		}
		s, err := newSubscriber(dst, opts...)
		if err != nil {
			front.Close()
			c.Fail(sub, i, "harness-subscriber", err.Error(), nil)
			continue
		}
		evs, cancel := s.OnSyncFinished()
		wit := func() any {
			return map[string]any{"case": desc, "head": headCid.String(), "link_with_the_mismatched_function": fake.String(), "served_for_it": fmt.Sprintf("%q", body0), "requests": BlockRequests(front.Log())}
		}
		c.Guard(sub, i, wit, func() {
			var serr error
			if announced {
				if err := s.Announce(context.Background(), headCid, front.AddrInfo()); err != nil {
					serr = err
				} else {
					select {
					case ev := <-evs:
						serr = ev.Err
					case <-time.After(60 * time.Second):
						c.Fail(sub, i, "no-notification-after-announce", "", wit())
						return
					}
				}
			} else {
				_, serr = s.SyncAdChain(context.Background(), front.AddrInfo())
			}
			if served == 0 {
				c.Inc("mismatched_function_link_not_requested")
				return
			}
			c.Inc("blocks_served_under_a_cid_naming_another_function")
			if serr == nil {
				c.Fail(sub, i, "corrupted-sync-succeeded:digest-of-another-function", desc, wit())
			}
			if _, ok := dst.Raw(fake); ok {
				c.Fail(sub, i, "store-holds-block-not-matching-its-cid:digest-of-another-function", fake.String(), wit())
			}
			hmu.Lock()
			for _, h := range hooks {
				if h.Equals(fake) {
					c.Fail(sub, i, "corrupted-block-reported:digest-of-another-function", fake.String(), wit())
				}
			}
			hmu.Unlock()
			if lt := s.GetLatestSync(id.ID); lt != nil {
				c.Fail(sub, i, "corrupted-sync-set-latest:digest-of-another-function", lt.String(), wit())
			}
			if _, bad := dst.Audit(); len(bad) > 0 {
				c.Fail(sub, i, "store-holds-block-not-matching-its-cid:digest-of-another-function", fmt.Sprint(bad), wit())
			}
		})
		cancel()
		s.Close()
		front.Close()
		c.Eval(1)
		c.Distinct(sub, desc)
	}
}

// c02PrivateFunction: the application's link system knows a hash function the global registry does not (a private-use
// code, through its own HasherChooser). Whether or not the subscriber can follow links that name it, bytes that do not
// hash to such a CID are never stored or reported.
func c02PrivateFunction(c *vf.Ctx) {
	const sub = "private-hash-function"
	if !c.Active(sub) {
		return
	}
	const privCode = 0x300000
	chooser := func(lp datamodel.LinkPrototype) (hash.Hash, error) {
		if p, ok := lp.(cidlink.LinkPrototype); ok && p.MhType == privCode {
			return sha256.New(), nil
		}
		return cidlink.DefaultLinkSystem().HasherChooser(lp)
	}
	id := Keys()["ed25519"][1]
	n := c.N(40, 2000)
	for i := 0; i < n; i++ {
		if !c.Mine(sub, i) {
			continue
		}
		r := c.Rand(sub, i)
		kind := []string{"bitflip", "bytesub", "truncate", "append", "empty"}[r.Intn(5)]
		desc := fmt.Sprintf("link names private-use function %#x (known to the application's link system only), its block is served with %s", privCode, kind)
		c.Cur(sub, i, desc)
		pub := NewStore()
		pub.Lsys.HasherChooser = chooser
		ch, err := NewChain(r, pub, 1, id.ID, cidlink.LinkPrototype{Prefix: cid.Prefix{Version: 1, Codec: cid.DagJSON, MhType: privCode, MhLength: 32}})
		if err != nil {
			c.Fail(sub, i, "harness-env", err.Error(), nil)
			return
		}
		old := ch.Cids[0]
		ch.Proto = linkProto(multihash.SHA2_256, -1)
		if err := ExtendChain(r, pub, ch, 1, id.ID); err != nil {
			c.Fail(sub, i, "harness-env", err.Error(), nil)
			return
		}
		front, err := NewFront(c, id, pub, MountPlain, "")
		if err != nil {
			c.Fail(sub, i, "harness-env", err.Error(), nil)
			return
		}
		front.Pub.SetRoot(ch.Head())
		body0, _ := pub.Raw(old)
		bad := c02Mutate(r, kind, body0, nil)
		if bad == nil {
			bad = []byte{}
		}
		served := 0
		front.Plan = func(ev ReqEvent) *Fault {
			if ev.Rsrc == old.String() {
				served++
				return &Fault{Body: bad, Label: kind}
			}
			return nil
		}
		dst := NewStore()
		dst.Lsys.HasherChooser = chooser
		var hmu sync.Mutex
		var hooks []cid.Cid
		s, err := newSubscriber(dst, dagsync.BlockHook(func(_ peer.ID, cd cid.Cid, _ dagsync.SegmentSyncActions) {
			hmu.Lock()
			hooks = append(hooks, cd)
			hmu.Unlock()
		}))
		if err != nil {
			front.Close()
			c.Fail(sub, i, "harness-subscriber", err.Error(), nil)
			continue
		}
		wit := func() any {
			return map[string]any{"case": desc, "link": old.String(), "served_for_it": fmt.Sprintf("%q", bad), "requests": BlockRequests(front.Log())}
		}
		c.Guard(sub, i, wit, func() {
			_, serr := s.SyncAdChain(context.Background(), front.AddrInfo())
			if served > 0 {
				c.Inc("corrupted_blocks_served_for_a_private_function_cid")
				if serr == nil {
					c.Fail(sub, i, "corrupted-sync-succeeded:private-hash-function", desc, wit())
				}
			} else {
				c.Inc("private_function_link_not_followed")
			}
			if raw, ok := dst.Raw(old); ok && !bytes.Equal(raw, body0) {
				c.Fail(sub, i, "store-holds-block-not-matching-its-cid:private-hash-function", old.String(), wit())
			}
			hmu.Lock()
			for _, h := range hooks {
				if h.Equals(old) {
					c.Fail(sub, i, "corrupted-block-reported:private-hash-function", old.String(), wit())
				}
			}
			hmu.Unlock()
			if lt := s.GetLatestSync(id.ID); lt != nil && serr != nil {
				c.Fail(sub, i, "corrupted-sync-set-latest:private-hash-function", lt.String(), wit())
			}
		})
		s.Close()
		front.Close()
		c.Eval(1)
		c.Distinct(sub, kind)
	}
}
