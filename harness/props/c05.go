package props

import (
	"github.com/libp2p/go-libp2p/core/peer"
	"bytes"
	"encoding/hex"
	"encoding/json"
	"fmt"
	"math/rand"

	"github.com/ipfs/go-cid"
	cidlink "github.com/ipld/go-ipld-prime/linking/cid"
	"github.com/ipni/go-libipni/ingest/schema"
	"github.com/libp2p/go-libp2p/core/crypto"
	"github.com/libp2p/go-libp2p/core/record"
	"github.com/multiformats/go-multihash"

	"verif/harness/vf"
)

func init() { Registry["C05"] = runC05 }

func allIdents() []Ident {
	var ids []Ident
	for _, t := range KeyTypes {
		ids = append(ids, Keys()[t]...)
	}
	return ids
}

func fetcherFor(m map[string]crypto.PrivKey) func(string) (crypto.PrivKey, error) {
	return func(id string) (crypto.PrivKey, error) {
		k, ok := m[id]
		if !ok {
			// (the identity may be written in its CID text form)
			if pid, err := peer.Decode(id); err == nil {
				k, ok = m[pid.String()]
			}
		}
		if !ok {
			return nil, fmt.Errorf("no key for %s", id)
		}
		return k, nil
	}
}

func adWitness(a *schema.Advertisement, extra map[string]any) any {
	m := map[string]any{}
	for k, v := range extra {
		m[k] = v
	}
	if _, enc, err := adCodecRoundTrip(a, cid.DagJSON); enc != nil && err == nil {
		m["ad_dagjson"] = string(enc)
	} else {
		b, _ := json.Marshal(a)
		m["ad_json"] = string(b)
	}
	return m
}

func runC05(c *vf.Ctx) {
	c05SignVerify(c)
	c05KeyAssignment(c)
	c05Removal(c)
}

// one single-value mutation of a signed ad; returns nil if not applicable
type adMut struct {
	name string
	f    func(r *rand.Rand, a *schema.Advertisement) bool
}

func flipOne(r *rand.Rand, b []byte) []byte {
	if len(b) == 0 {
		return []byte{byte(1 + r.Intn(255))}
	}
	o := append([]byte(nil), b...)
	o[r.Intn(len(o))] ^= 1 << uint(r.Intn(8))
	return o
}

func changeStr(r *rand.Rand, s string) string {
	if s == "" {
		return "x"
	}
	b := []byte(s)
	i := r.Intn(len(b))
	old := b[i]
	for b[i] == old {
		b[i] = "0123456789abcdefXYZ/"[r.Intn(20)]
	}
	return string(b)
}

var adMuts = []adMut{
	{"previous-link-changed", func(r *rand.Rand, a *schema.Advertisement) bool {
		if a.PreviousID == nil {
			return false
		}
		old := a.PreviousID.(cidlink.Link).Cid
		for {
			n := randCid(r)
			if !n.Equals(old) {
				a.PreviousID = cidlink.Link{Cid: n}
				return true
			}
		}
	}},
	{"previous-link-removed", func(r *rand.Rand, a *schema.Advertisement) bool {
		if a.PreviousID == nil {
			return false
		}
		a.PreviousID = nil
		return true
	}},
	{"previous-link-added", func(r *rand.Rand, a *schema.Advertisement) bool {
		if a.PreviousID != nil {
			return false
		}
		a.PreviousID = cidlink.Link{Cid: randCid(r)}
		return true
	}},
	{"entries-link", func(r *rand.Rand, a *schema.Advertisement) bool {
		old := a.Entries.(cidlink.Link).Cid
		for {
			n := randCid(r)
			if r.Intn(4) == 0 {
				n = schema.NoEntries.Cid
			}
			if !n.Equals(old) {
				a.Entries = cidlink.Link{Cid: n}
				return true
			}
		}
	}},
	{"provider", func(r *rand.Rand, a *schema.Advertisement) bool {
		// keep it out of the EP list check: only for ads without EP, or change to a non-listed id
		a.Provider = changeStr(r, a.Provider)
		return true
	}},
	{"one-address", func(r *rand.Rand, a *schema.Advertisement) bool {
		if len(a.Addresses) == 0 {
			return false
		}
		i := r.Intn(len(a.Addresses))
		a.Addresses[i] = changeStr(r, a.Addresses[i])
		return true
	}},
	{"metadata", func(r *rand.Rand, a *schema.Advertisement) bool {
		a.Metadata = flipOne(r, a.Metadata)
		return true
	}},
	{"removal-flag", func(r *rand.Rand, a *schema.Advertisement) bool {
		a.IsRm = !a.IsRm
		return true
	}},
	{"ep-context-id", func(r *rand.Rand, a *schema.Advertisement) bool {
		if a.ExtendedProvider == nil || len(a.ExtendedProvider.Providers) == 0 {
			return false
		}
		a.ContextID = flipOne(r, a.ContextID)
		return true
	}},
	{"ep-override-flag", func(r *rand.Rand, a *schema.Advertisement) bool {
		if a.ExtendedProvider == nil || len(a.ExtendedProvider.Providers) == 0 {
			return false
		}
		a.ExtendedProvider.Override = !a.ExtendedProvider.Override
		return true
	}},
	{"ep-override-flag-of-a-section-without-providers", func(r *rand.Rand, a *schema.Advertisement) bool {
		if a.ExtendedProvider == nil || len(a.ExtendedProvider.Providers) != 0 {
			return false
		}
		a.ExtendedProvider.Override = !a.ExtendedProvider.Override
		return true
	}},
	{"ep-identity", func(r *rand.Rand, a *schema.Advertisement) bool {
		if a.ExtendedProvider == nil || len(a.ExtendedProvider.Providers) == 0 {
			return false
		}
		i := r.Intn(len(a.ExtendedProvider.Providers))
		ids := allIdents()
		for {
			n := ids[r.Intn(len(ids))].ID.String()
			if n != a.ExtendedProvider.Providers[i].ID {
				a.ExtendedProvider.Providers[i].ID = n
				return true
			}
		}
	}},
	{"ep-one-address", func(r *rand.Rand, a *schema.Advertisement) bool {
		if a.ExtendedProvider == nil {
			return false
		}
		var cand []int
		for i, p := range a.ExtendedProvider.Providers {
			if len(p.Addresses) > 0 {
				cand = append(cand, i)
			}
		}
		if len(cand) == 0 {
			return false
		}
		p := &a.ExtendedProvider.Providers[cand[r.Intn(len(cand))]]
		j := r.Intn(len(p.Addresses))
		p.Addresses[j] = changeStr(r, p.Addresses[j])
		return true
	}},
	{"ep-metadata", func(r *rand.Rand, a *schema.Advertisement) bool {
		if a.ExtendedProvider == nil || len(a.ExtendedProvider.Providers) == 0 {
			return false
		}
		p := &a.ExtendedProvider.Providers[r.Intn(len(a.ExtendedProvider.Providers))]
		p.Metadata = flipOne(r, p.Metadata)
		return true
	}},
	// an entry's metadata / address list replaced by the advertisement's own values, or emptied when it equals them
	// (values that an implementation might take as "the same as the advertisement's")
	{"ep-metadata-swapped-with-the-ads-value", func(r *rand.Rand, a *schema.Advertisement) bool {
		if a.ExtendedProvider == nil || len(a.ExtendedProvider.Providers) == 0 {
			return false
		}
		k := r.Intn(len(a.ExtendedProvider.Providers))
		for x := range a.ExtendedProvider.Providers {
			if a.ExtendedProvider.Providers[x].ID == a.Provider && r.Intn(3) != 0 {
				k = x
			}
		}
		p := &a.ExtendedProvider.Providers[k]
		switch {
		case len(p.Metadata) == 0 && len(a.Metadata) > 0:
			p.Metadata = append([]byte(nil), a.Metadata...)
		case bytes.Equal(p.Metadata, a.Metadata) && len(p.Metadata) > 0:
			p.Metadata = nil
		default:
			return false
		}
		return true
	}},
	{"ep-addresses-swapped-with-the-ads-value", func(r *rand.Rand, a *schema.Advertisement) bool {
		if a.ExtendedProvider == nil || len(a.ExtendedProvider.Providers) == 0 {
			return false
		}
		k := r.Intn(len(a.ExtendedProvider.Providers))
		for x := range a.ExtendedProvider.Providers {
			if a.ExtendedProvider.Providers[x].ID == a.Provider && r.Intn(3) != 0 {
				k = x
			}
		}
		p := &a.ExtendedProvider.Providers[k]
		same := len(p.Addresses) == len(a.Addresses)
		for x := range p.Addresses {
			if same && p.Addresses[x] != a.Addresses[x] {
				same = false
			}
		}
		switch {
		case len(p.Addresses) == 0 && len(a.Addresses) > 0:
			p.Addresses = append([]string(nil), a.Addresses...)
		case same && len(p.Addresses) > 0:
			p.Addresses = nil
		default:
			return false
		}
		return true
	}},
}

// deprecatedAdSig is the record a main envelope sealed before the payload was corrected: same domain and codec, the
// payload being multihash.Encode (a header, not a digest) of previous+entries+provider+addresses+metadata+isRm.
type deprecatedAdSig struct{ payload []byte }

func (r *deprecatedAdSig) Domain() string                 { return "indexer" }
func (r *deprecatedAdSig) Codec() []byte                  { return []byte("/indexer/ingest/adSignature") }
func (r *deprecatedAdSig) MarshalRecord() ([]byte, error) { return r.payload, nil }
func (r *deprecatedAdSig) UnmarshalRecord(b []byte) error { r.payload = b; return nil }

func sealDeprecatedAdSignature(ad *schema.Advertisement, key crypto.PrivKey) ([]byte, error) {
	var buf bytes.Buffer
	if ad.PreviousID != nil {
		buf.Write(ad.PreviousID.(cidlink.Link).Cid.Bytes())
	} else {
		buf.Write(cid.Undef.Bytes())
	}
	buf.Write(ad.Entries.(cidlink.Link).Cid.Bytes())
	buf.WriteString(ad.Provider)
	for _, a := range ad.Addresses {
		buf.WriteString(a)
	}
	buf.Write(ad.Metadata)
	if ad.IsRm {
		buf.WriteByte(1)
	} else {
		buf.WriteByte(0)
	}
	payload, err := multihash.Encode(buf.Bytes(), multihash.SHA2_256)
	if err != nil {
		return nil, err
	}
	env, err := record.Seal(&deprecatedAdSig{payload: payload}, key)
	if err != nil {
		return nil, err
	}
	return env.Marshal()
}

func c05SignVerify(c *vf.Ctx) {
	const sub = "sign-verify-mutate"
	if !c.Active(sub) {
		return
	}
	ids := allIdents()
	n := c.N(1200, 50000)
	for i := 0; i < n; i++ {
		if !c.Mine(sub, i) {
			continue
		}
		r := c.Rand(sub, i)
		main := ids[r.Intn(len(ids))]
		// the signer is usually the provider, sometimes a separate publisher
		signer := main
		if r.Intn(4) == 0 {
			signer = ids[r.Intn(len(ids))]
		}
		ad, sh, eps := genAd(r, main, ids)
		c.Cur(sub, i, sh.String())
		keys := map[string]crypto.PrivKey{}
		for _, e := range eps {
			keys[e.ID.String()] = e.Priv
		}
		var err error
		withFetcher := sh.EP || r.Intn(2) == 0
		if withFetcher {
			err = ad.SignWithExtendedProviders(signer.Priv, fetcherFor(keys))
		} else {
			err = ad.Sign(signer.Priv)
		}
		base := func(extra map[string]any) any {
			if extra == nil {
				extra = map[string]any{}
			}
			extra["shape"] = sh.String()
			extra["signer"] = signer.String()
			return adWitness(ad, extra)
		}
		if err != nil {
			c.Fail(sub, i, "sign-error", err.Error(), base(nil))
			continue
		}
		// 1. verifies, returns the signer, also after both codec round trips
		c.Guard(sub, i, func() any { return base(nil) }, func() {
			got, err := ad.VerifySignature()
			if err != nil || got != signer.ID {
				c.Fail(sub, i, "own-signature-rejected:"+signer.Type, fmt.Sprintf("err=%v signer=%s want %s", err, got, signer.ID), base(nil))
			}
			for _, codec := range []uint64{cid.DagJSON, cid.DagCBOR} {
				rt, _, err := adCodecRoundTrip(ad, codec)
				if err != nil {
					c.Fail(sub, i, "codec-roundtrip-error", fmt.Sprintf("codec %#x: %v", codec, err), base(nil))
					continue
				}
				got, err := rt.VerifySignature()
				if err != nil || got != signer.ID {
					c.Fail(sub, i, "signature-lost-in-roundtrip", fmt.Sprintf("codec %#x err=%v signer=%s", codec, err, got), base(nil))
				}
			}
		})
		c.Eval(3)
		c.Distinct(sub, sh.String(), signer.Type)
		c.Inc("signed_" + map[bool]string{true: "with_ep", false: "plain"}[sh.EP && len(eps) > 0])
		// 2. every applicable single-value mutation
		for _, m := range adMuts {
			b := cloneAd(ad)
			if !m.f(r, b) {
				continue
			}
			w := func() any { return adWitness(b, map[string]any{"mutation": m.name, "shape": sh.String(), "signer": signer.String()}) }
			c.Guard(sub, i, w, func() {
				if got, err := b.VerifySignature(); err == nil {
					c.Fail(sub, i, "mutated-ad-verifies:"+m.name, fmt.Sprintf("returned signer %s", got), w())
				}
				// the changed advertisement, signed again with the library (it still carries the signatures made
				// before the change), verifies like any other it signs
				b2 := cloneAd(b)
				var serr error
				if withFetcher {
					serr = b2.SignWithExtendedProviders(signer.Priv, fetcherFor(keys))
				} else {
					serr = b2.Sign(signer.Priv)
				}
				if serr == nil {
					c.Inc("changed_ads_signed_again")
					if got, err := b2.VerifySignature(); err != nil || got != signer.ID {
						c.Fail(sub, i, "signed-again-after-a-change-rejected:"+m.name, fmt.Sprintf("err=%v signer=%s want %s", err, got, signer.ID), w())
					}
				}
			})
			c.Eval(1)
			c.Inc("mut_" + m.name)
		}
		// 3. byte alterations inside every envelope's fields
		envs := []struct {
			name string
			get  func(a *schema.Advertisement) *[]byte
		}{{"ad", func(a *schema.Advertisement) *[]byte { return &a.Signature }}}
		if ad.ExtendedProvider != nil {
			for k := range ad.ExtendedProvider.Providers {
				k := k
				envs = append(envs, struct {
					name string
					get  func(a *schema.Advertisement) *[]byte
				}{fmt.Sprintf("ep%d", k), func(a *schema.Advertisement) *[]byte { return &a.ExtendedProvider.Providers[k].Signature }})
			}
		}
		for _, e := range envs {
			orig := *e.get(ad)
			// 3a. one envelope stripped (absent, empty), every other envelope left genuine
			for _, strip := range [][]byte{nil, {}} {
				b := cloneAd(ad)
				*e.get(b) = strip
				w := func() any {
					return adWitness(b, map[string]any{"envelope": e.name, "mutation": "signature-stripped", "shape": sh.String(), "signer": signer.String()})
				}
				c.Guard(sub, i, w, func() {
					if _, err := b.VerifySignature(); err == nil {
						c.Fail(sub, i, "stripped-envelope-verifies", e.name+" envelope removed, the others genuine", w())
					}
				})
				c.Eval(1)
				c.Inc("env_stripped")
			}
			for _, f := range []string{"public_key", "payload_type", "payload", "signature"} {
				for rep := 0; rep < 2; rep++ {
					alt, pos, ok := alterInField(r, orig, f)
					if !ok {
						c.Fail(sub, i, "harness-field-not-found", f, nil)
						continue
					}
					if sameEnvelope(alt, orig) {
						c.Inc("semantically_identical_skipped")
						continue
					}
					b := cloneAd(ad)
					*e.get(b) = alt
					w := func() any {
						return adWitness(b, map[string]any{"envelope": e.name, "field": f, "byte": pos, "shape": sh.String(), "signer": signer.String(), "envelope_hex": hex.EncodeToString(alt)})
					}
					c.Guard(sub, i, w, func() {
						if _, err := b.VerifySignature(); err == nil {
							c.Fail(sub, i, "altered-envelope-verifies:"+f, fmt.Sprintf("%s envelope, flip at byte %d (key %s)", e.name, pos, signer.Type), w())
						}
					})
					c.Eval(1)
					c.Inc("env_" + f)
				}
			}
		}
		// 4. main provider missing from the EP list
		if ad.ExtendedProvider != nil && len(ad.ExtendedProvider.Providers) > 1 {
			b := cloneAd(ad)
			var keep []schema.Provider
			for _, p := range b.ExtendedProvider.Providers {
				if p.ID != b.Provider {
					keep = append(keep, p)
				}
			}
			b.ExtendedProvider.Providers = keep
			w := func() any { return adWitness(b, map[string]any{"mutation": "main-provider-removed-from-ep-list"}) }
			c.Guard(sub, i, w, func() {
				if _, err := b.VerifySignature(); err == nil {
					c.Fail(sub, i, "main-provider-missing-accepted", "", w())
				}
			})
			c.Eval(1)
			c.Inc("main_removed")
		}
		// 5. the same advertisement under a main envelope that seals the deprecated payload (the multihash *header* over
		// the raw concatenation, which VerifySignature still accepts): the extended-provider clauses hold for it as well
		if ad.ExtendedProvider != nil && len(ad.ExtendedProvider.Providers) > 0 {
			if oldSig, err := sealDeprecatedAdSignature(ad, signer.Priv); err == nil {
				o := cloneAd(ad)
				o.Signature = oldSig
				accepted := false
				c.Guard(sub, i, func() any { return adWitness(o, map[string]any{"format": "deprecated"}) }, func() {
					got, err := o.VerifySignature()
					accepted = err == nil && got == signer.ID
				})
				if !accepted {
					c.Inc("deprecated_format_not_accepted")
				} else {
					c.Inc("deprecated_format_accepted")
					type dv struct {
						name string
						f    func(b *schema.Advertisement) bool
					}
					dvs := []dv{}
					for k := range o.ExtendedProvider.Providers {
						k := k
						dvs = append(dvs, dv{fmt.Sprintf("ep%d-signature-stripped", k), func(b *schema.Advertisement) bool {
							b.ExtendedProvider.Providers[k].Signature = nil
							return true
						}}, dv{fmt.Sprintf("ep%d-signature-altered", k), func(b *schema.Advertisement) bool {
							alt, _, ok := alterInField(r, b.ExtendedProvider.Providers[k].Signature, "signature")
							if !ok || sameEnvelope(alt, b.ExtendedProvider.Providers[k].Signature) {
								return false
							}
							b.ExtendedProvider.Providers[k].Signature = alt
							return true
						}})
					}
					if len(o.ExtendedProvider.Providers) > 1 {
						dvs = append(dvs, dv{"main-provider-removed", func(b *schema.Advertisement) bool {
							var keep []schema.Provider
							for _, p := range b.ExtendedProvider.Providers {
								if p.ID != b.Provider {
									keep = append(keep, p)
								}
							}
							b.ExtendedProvider.Providers = keep
							return true
						}})
					}
					for _, v := range dvs {
						b := cloneAd(o)
						if !v.f(b) {
							continue
						}
						w := func() any {
							return adWitness(b, map[string]any{"format": "deprecated", "variant": v.name, "shape": sh.String(), "signer": signer.String()})
						}
						c.Guard(sub, i, w, func() {
							if _, err := b.VerifySignature(); err == nil {
								c.Fail(sub, i, "deprecated-format-ad-with-invalid-extended-providers-verifies", v.name, w())
							}
						})
						c.Eval(1)
						c.Inc("deprecated_format_variants")
					}
				}
			}
		}
		if c.WantSample(sub) && sh.EP && len(eps) > 1 {
			c.Sample(sub, base(nil))
		}
	}
}

// every assignment of signing keys to extended-provider entries
func c05KeyAssignment(c *vf.Ctx) {
	const sub = "key-assignment"
	if !c.Active(sub) {
		return
	}
	ids := allIdents()
	n := c.N(150, 6000)
	for i := 0; i < n; i++ {
		if !c.Mine(sub, i) {
			continue
		}
		r := c.Rand(sub, i)
		main := ids[r.Intn(len(ids))]
		signer := main
		if r.Intn(4) == 0 {
			signer = ids[r.Intn(len(ids))]
		}
		// force an EP ad with 1..3 others
		var ad *schema.Advertisement
		var sh adShape
		var eps []Ident
		for {
			ad, sh, eps = genAd(r, main, ids)
			if sh.EP && len(eps) >= 2 && len(eps) <= 3 {
				break
			}
		}
		c.Cur(sub, i, sh.String())
		// candidate keys per entry: right key, ad signer, another EP's key, a stranger
		stranger := ids[r.Intn(len(ids))]
		cands := []Ident{signer, stranger}
		cands = append(cands, eps...)
		// enumerate all assignments entry -> candidate index
		total := 1
		for range eps {
			total *= len(cands)
		}
		for asg := 0; asg < total; asg++ {
			x := asg
			assign := make([]Ident, len(eps))
			for k := range eps {
				assign[k] = cands[x%len(cands)]
				x /= len(cands)
			}
			valid := true
			mainIdx := -1
			for k, e := range eps {
				if e.ID == main.ID {
					mainIdx = k
					if assign[k].ID != signer.ID {
						valid = false
					}
				} else if assign[k].ID != e.ID {
					valid = false
				}
			}
			// build: sign with fetcher giving the assigned keys for non-main entries
			b := cloneAd(ad)
			keys := map[string]crypto.PrivKey{}
			for k, e := range eps {
				keys[e.ID.String()] = assign[k].Priv
			}
			if err := b.SignWithExtendedProviders(signer.Priv, fetcherFor(keys)); err != nil {
				c.Fail(sub, i, "sign-error", err.Error(), nil)
				break
			}
			// the main entry is always sealed with the ad signer's key by the library; to give it
			// another key take the main entry's envelope from a copy signed by that key
			if assign[mainIdx].ID != signer.ID {
				b2 := cloneAd(ad)
				if err := b2.SignWithExtendedProviders(assign[mainIdx].Priv, fetcherFor(keys)); err != nil {
					c.Fail(sub, i, "sign-error", err.Error(), nil)
					break
				}
				b.ExtendedProvider.Providers[mainIdx].Signature = b2.ExtendedProvider.Providers[mainIdx].Signature
			}
			w := func() any {
				var as []string
				for k, e := range eps {
					as = append(as, fmt.Sprintf("entry %d names %s (main=%v) sealed by %s", k, e.ID, e.ID == main.ID, assign[k].ID))
				}
				return adWitness(b, map[string]any{"assignment": as, "ad_signer": signer.String(), "expected_valid": valid})
			}
			c.Guard(sub, i, w, func() {
				got, err := b.VerifySignature()
				if valid {
					if err != nil || got != signer.ID {
						c.Fail(sub, i, "valid-key-assignment-rejected", fmt.Sprintf("err=%v", err), w())
					}
				} else if err == nil {
					key := "ep-entry-sealed-by-wrong-key-accepted"
					if assign[mainIdx].ID != signer.ID {
						key = "main-entry-not-sealed-by-ad-signer-accepted"
					}
					c.Fail(sub, i, key, "", w())
				}
			})
			c.Eval(1)
			if valid {
				c.Inc("assignments_valid")
			} else {
				c.Inc("assignments_invalid")
			}
		}
		c.Distinct(sub, sh.String(), signer.Type, fmt.Sprint(signer.ID == main.ID))
		if c.WantSample(sub) {
			c.Sample(sub, map[string]any{"shape": sh.String(), "entries": len(eps), "candidate_keys": len(cands), "assignments_enumerated": total})
		}
	}
}

// removal advertisements that carry extended providers: whichever way such an ad gets its signatures, it verifies
// only if the extended-provider clauses hold (the main provider is listed, every entry is signed by the identity it
// names over this ad); an ad whose entries are unsigned, taken from another ad, or forged must not verify
func c05Removal(c *vf.Ctx) {
	const sub = "removal-with-extended-providers"
	if !c.Active(sub) {
		return
	}
	ids := allIdents()
	n := c.N(300, 30000)
	for i := 0; i < n; i++ {
		if !c.Mine(sub, i) {
			continue
		}
		r := c.Rand(sub, i)
		main := ids[r.Intn(len(ids))]
		var ad *schema.Advertisement
		var sh adShape
		var eps []Ident
		for {
			ad, sh, eps = genAd(r, main, ids)
			if sh.EP && len(eps) >= 2 {
				break
			}
		}
		ad.IsRm = false
		c.Cur(sub, i, sh.String())
		keys := map[string]crypto.PrivKey{}
		for _, e := range eps {
			keys[e.ID.String()] = e.Priv
		}
		good := cloneAd(ad)
		if err := good.SignWithExtendedProviders(main.Priv, fetcherFor(keys)); err != nil {
			c.Fail(sub, i, "sign-error", err.Error(), nil)
			continue
		}
		// the main envelope of a removal ad with the same values (signed by the library, without the list)
		rmMain := cloneAd(ad)
		rmMain.IsRm = true
		rmMain.ExtendedProvider = nil
		if err := rmMain.Sign(main.Priv); err != nil {
			c.Fail(sub, i, "sign-error", err.Error(), nil)
			continue
		}
		mainIdx := -1
		for k, e := range eps {
			if e.ID == main.ID {
				mainIdx = k
			}
		}
		type variant struct {
			name string
			make func() *schema.Advertisement
		}
		build := func(f func(b *schema.Advertisement)) func() *schema.Advertisement {
			return func() *schema.Advertisement {
				b := cloneAd(good)
				b.IsRm = true
				b.Signature = append([]byte(nil), rmMain.Signature...)
				f(b)
				return b
			}
		}
		variants := []variant{
			{"entries-signed-for-the-non-removal-ad", build(func(b *schema.Advertisement) {})},
			{"entries-unsigned", build(func(b *schema.Advertisement) {
				for k := range b.ExtendedProvider.Providers {
					b.ExtendedProvider.Providers[k].Signature = nil
				}
			})},
			{"entries-with-garbage-signatures", build(func(b *schema.Advertisement) {
				for k := range b.ExtendedProvider.Providers {
					b.ExtendedProvider.Providers[k].Signature = rbytes(r, 40+r.Intn(80))
				}
			})},
			{"main-provider-not-listed", build(func(b *schema.Advertisement) {
				if mainIdx >= 0 {
					ps := b.ExtendedProvider.Providers
					b.ExtendedProvider.Providers = append(append([]schema.Provider(nil), ps[:mainIdx]...), ps[mainIdx+1:]...)
				}
			})},
			{"entry-sealed-by-the-ad-signer-instead-of-the-identity-it-names", build(func(b *schema.Advertisement) {
				for k, e := range eps {
					if e.ID != main.ID && mainIdx >= 0 {
						b.ExtendedProvider.Providers[k].Signature = append([]byte(nil), b.ExtendedProvider.Providers[mainIdx].Signature...)
						break
					}
				}
			})},
		}
		for _, v := range variants {
			b := v.make()
			w := func() any { return adWitness(b, map[string]any{"variant": v.name, "is_rm": true}) }
			c.Guard(sub, i, w, func() {
				if _, err := b.VerifySignature(); err == nil {
					c.Fail(sub, i, "removal-ad-with-invalid-extended-providers-verifies:"+v.name, "", w())
				}
			})
			c.Eval(1)
		}
		// signing such an ad through the library: refused, or (if ever allowed) the result must be a fully valid ad
		s2 := cloneAd(ad)
		s2.IsRm = true
		if err := s2.SignWithExtendedProviders(main.Priv, fetcherFor(keys)); err != nil {
			c.Inc("removal_with_extended_providers_refused_by_sign")
		} else {
			c.Inc("removal_with_extended_providers_signed")
			w := func() any { return adWitness(s2, map[string]any{"variant": "signed by the library", "is_rm": true}) }
			if got, err := s2.VerifySignature(); err != nil || got != main.ID {
				c.Fail(sub, i, "library-signed-removal-ad-does-not-verify", fmt.Sprint(err), w())
			}
			for k := range s2.ExtendedProvider.Providers {
				b := cloneAd(s2)
				b.ExtendedProvider.Providers = append([]schema.Provider(nil), s2.ExtendedProvider.Providers...)
				b.ExtendedProvider.Providers[k].Signature = flipOne(r, b.ExtendedProvider.Providers[k].Signature)
				if _, err := b.VerifySignature(); err == nil {
					c.Fail(sub, i, "removal-ad-with-invalid-extended-providers-verifies:entry-signature-altered", fmt.Sprint("entry ", k), w())
				}
			}
		}
		c.Eval(1)
		c.Inc("removal_ep_cases")
		c.Distinct(sub, sh.String())
	}
}
