package props

import (
	"github.com/multiformats/go-multihash"
	"github.com/ipfs/go-cid"
	"context"
	"fmt"
	"math/rand"
	"sync"
	"sync/atomic"
	"time"

	"github.com/ipni/go-libipni/announce"
	"github.com/ipni/go-libipni/announce/message"
	"github.com/ipni/go-libipni/announce/p2psender"
	"github.com/libp2p/go-libp2p"
	pubsub "github.com/libp2p/go-libp2p-pubsub"
	"github.com/libp2p/go-libp2p/core/host"
	"github.com/libp2p/go-libp2p/core/peer"
	"github.com/multiformats/go-multiaddr"

	"verif/harness/vf"
)

func newHost() (host.Host, error) {
	return libp2p.New(libp2p.ListenAddrStrings("/ip4/127.0.0.1/tcp/0"), libp2p.DisableRelay(), libp2p.NoTransports, libp2p.DefaultTransports, libp2p.ResourceManager(nil))
}

// meshTopics joins all hosts to one gossipsub topic with each other as direct peers.
func meshTopics(hosts []host.Host, topic string) ([]*pubsub.Topic, func(), error) {
	var infos []peer.AddrInfo
	for _, h := range hosts {
		infos = append(infos, *host.InfoFromHost(h))
	}
	ctx, cancel := context.WithCancel(context.Background())
	var topics []*pubsub.Topic
	for i, h := range hosts {
		var others []peer.AddrInfo
		for j, in := range infos {
			if j != i {
				others = append(others, in)
				h.Peerstore().AddAddrs(in.ID, in.Addrs, time.Hour)
			}
		}
		ps, err := pubsub.NewGossipSub(ctx, h, pubsub.WithDirectPeers(others), pubsub.WithDirectConnectTicks(1))
		if err != nil {
			cancel()
			return nil, nil, err
		}
		t, err := ps.Join(topic)
		if err != nil {
			cancel()
			return nil, nil, err
		}
		topics = append(topics, t)
	}
	for i, h := range hosts {
		for j, in := range infos {
			if j > i {
				_ = h.Connect(ctx, in)
			}
		}
	}
	return topics, cancel, nil
}

func waitFor(col *collector, d time.Duration, pred func(announce.Announce) bool) (announce.Announce, bool) {
	deadline := time.Now().Add(d)
	for time.Now().Before(deadline) {
		for _, a := range col.snapshot() {
			if pred(a) {
				return a, true
			}
		}
		time.Sleep(2 * time.Millisecond)
	}
	return announce.Announce{}, false
}

func countOf(col *collector, pred func(announce.Announce) bool) int {
	n := 0
	for _, a := range col.snapshot() {
		if pred(a) {
			n++
		}
	}
	return n
}

// (4) pubsub: source attribution, republication with original peer, self-republication ignored
func c09Pubsub(c *vf.Ctx) {
	const sub = "pubsub"
	if !c.Active(sub) {
		return
	}
	n := c.N(6, 60)
	for i := 0; i < n; i++ {
		if !c.Mine(sub, i) {
			continue
		}
		// environment trouble (hosts cannot be created, the gossip mesh does not form) is retried with fresh hosts;
		// only after three attempts is the case recorded as inconclusive
		why := ""
		for attempt := 0; attempt < 3; attempt++ {
			if why = c09PubsubOne(c, sub, i, c.Rand(sub, i*10+attempt)); why == "" {
				break
			}
			c.Inc("pubsub_attempts_retried")
		}
		if why != "" {
			c.Inconclusive(sub, i, "pubsub-environment", why, nil)
		}
	}
}

// c09PubsubOne runs one pubsub scenario; a non-empty return value names an environment problem (retry).
func c09PubsubOne(c *vf.Ctx, sub string, i int, r *rand.Rand) string {
	c.Cur(sub, i, "")
	var hosts []host.Host
	envErr := ""
	ok := true
	for k := 0; k < 3; k++ {
		h, err := newHost()
		if err != nil {
			envErr = "host-create: " + err.Error()
			ok = false
			break
		}
		hosts = append(hosts, h)
	}
	if !ok {
		for _, h := range hosts {
			h.Close()
		}
		return envErr
	}
	hA, hR, hB := hosts[0], hosts[1], hosts[2]
	topicName := fmt.Sprintf("/verif/c09/%d/%d", c.Seed, i)
	topics, cancelPS, err := meshTopics(hosts, topicName)
	if err != nil {
		for _, h := range hosts {
			h.Close()
		}
		return "mesh: " + err.Error()
	}
	cleanup := func() {
		cancelPS()
		for _, h := range hosts {
			h.Close()
		}
	}
	var relayAllowCalls sync.Map // peer -> *atomic.Int64
	relayAllow := func(p peer.ID) bool {
		v, _ := relayAllowCalls.LoadOrStore(p, new(atomic.Int64))
		v.(*atomic.Int64).Add(1)
		return true
	}
	filterB := r.Intn(2) == 0
	// the downstream receiver's allow filter: none, only the original publisher (and A), or only the relay (and A)
	P := EdIdent(r)
	bMode := []string{"only-relay", "only-original-publisher", "none"}[i%3]
	var bConsulted atomic.Int64 // consultations of B's filter for the republication (it names P, or the relay)
	bAllow := func(p peer.ID) bool {
		if p == P.ID || p == hR.ID() {
			bConsulted.Add(1)
		}
		switch bMode {
		case "only-original-publisher":
			return p == P.ID || p == hA.ID()
		case "only-relay":
			return p == hR.ID() || p == hA.ID()
		}
		return true
	}
	rcR, err1 := announce.NewReceiver(hR, topicName, announce.WithTopic(topics[1]), announce.WithResend(true), announce.WithAllowPeer(relayAllow))
	rcB, err2 := announce.NewReceiver(hB, topicName, announce.WithTopic(topics[2]), announce.WithFilterIPs(filterB), announce.WithAllowPeer(bAllow))
	snd, err3 := p2psender.New(nil, "", p2psender.WithTopic(topics[0]))
	if err1 != nil || err2 != nil || err3 != nil {
		cleanup()
		return "receiver-create: " + fmt.Sprint(err1, err2, err3)
	}
	colR, colB := collect(rcR), collect(rcB)
	pubAddr := multiaddr.StringCast("/ip4/8.8.4.4/tcp/3104/http")
	privAddr := multiaddr.StringCast("/ip4/192.168.7.7/tcp/3104/http")

	// warm-up until the mesh carries messages from A to both R and B
	warm := false
	for k := 0; k < 300 && !warm; k++ {
		m := message.Message{Cid: c09Cid(700000 + 100*i + k)}
		m.SetAddrs([]multiaddr.Multiaddr{pubAddr})
		_ = snd.Send(context.Background(), m)
		time.Sleep(100 * time.Millisecond)
		if len(colR.snapshot()) > 0 && len(colB.snapshot()) > 0 {
			warm = true
		}
	}
	if !warm {
		rcR.Close()
		rcB.Close()
		cleanup()
		return "mesh-not-formed: no pubsub message reached both receivers within 30 s"
	}
	wit := func() any {
		return map[string]any{"A_publisher_host": hA.ID().String(), "R_relay_host": hR.ID().String(), "B_receiver_host": hB.ID().String(), "filter_ips_on_B": filterB,
			"allow_filter_on_B": bMode, "directly_announced_publisher": P.ID.String()}
	}
	c.Guard(sub, i, wit, func() {
		// (a) a pubsub announcement from A is attributed to A and carries its addresses
		cid1 := c09Cid(710000 + i)
		m := message.Message{Cid: cid1}
		m.SetAddrs([]multiaddr.Multiaddr{pubAddr, privAddr})
		if err := snd.Send(context.Background(), m); err != nil {
			c.Fail(sub, i, "pubsub-send", err.Error(), wit())
			return
		}
		a, got := waitFor(colB, 20*time.Second, func(a announce.Announce) bool { return a.Cid.Equals(cid1) })
		if !got {
			c.Fail(sub, i, "pubsub-announce-not-delivered", "B never saw A's announcement", wit())
			return
		}
		if a.PeerID != hA.ID() {
			c.Fail(sub, i, "pubsub-announce-misattributed", fmt.Sprintf("peer %s want %s", a.PeerID, hA.ID()), wit())
		}
		hasPriv := false
		hasPub := false
		for _, ad := range a.Addrs {
			if ad.Equal(privAddr) {
				hasPriv = true
			}
			if ad.Equal(pubAddr) {
				hasPub = true
			}
		}
		if !hasPub || hasPriv == filterB {
			c.Fail(sub, i, "pubsub-address-filtering", fmt.Sprintf("addrs %v filter=%v", maStrings(a.Addrs), filterB), wit())
		}
		// (a1) the same CID announced again over pubsub with other addresses (another payload, so gossip carries it as
		// a new message): it is a recently seen CID and must not be delivered a second time. A marker from A, sent
		// afterwards, orders the observation.
		{
			m1 := message.Message{Cid: cid1}
			m1.SetAddrs([]multiaddr.Multiaddr{pubAddr})
			cidM := c09Cid(715000 + i)
			mm := message.Message{Cid: cidM}
			mm.SetAddrs([]multiaddr.Multiaddr{pubAddr})
			if err := snd.Send(context.Background(), m1); err == nil {
				_ = snd.Send(context.Background(), mm)
				if _, got := waitFor(colB, 20*time.Second, func(a announce.Announce) bool { return a.Cid.Equals(cidM) }); !got {
					c.Inconclusive(sub, i, "marker-after-repeated-cid-not-seen", "", nil)
					return
				}
				if nB := countOf(colB, func(a announce.Announce) bool { return a.Cid.Equals(cid1) }); nB != 1 {
					c.Fail(sub, i, "recently-seen-cid-delivered-again-over-pubsub", fmt.Sprintf("delivered %d times (announced twice over pubsub, with different addresses)", nB), wit())
				}
				c.Inc("pubsub_repeated_cid_cases")
			}
		}
		// (a2) a burst from A while a consumer is not asking for the next announcement: all of them are allowed and
		// new, so all of them are delivered once it does (a second receiver on B's host, nobody calling Next yet)
		if rcS, err := announce.NewReceiver(hB, topicName, announce.WithTopic(topics[2])); err != nil {
			c.Fail(sub, i, "harness-second-receiver", err.Error(), wit())
			return
		} else {
			const burst = 5
			want := map[string]bool{}
			for k := 0; k < burst; k++ {
				cb := c09Cid(740000 + 10*i + k)
				want[cb.String()] = true
				mb := message.Message{Cid: cb}
				mb.SetAddrs([]multiaddr.Multiaddr{pubAddr})
				_ = snd.Send(context.Background(), mb)
				time.Sleep(20 * time.Millisecond)
			}
			// (they have reached B's host when the receiver that is being read has delivered them)
			arrived := 0
			for w := 0; w < 4000 && arrived < burst; w++ {
				arrived = countOf(colB, func(a announce.Announce) bool { return want[a.Cid.String()] })
				time.Sleep(5 * time.Millisecond)
			}
			if arrived < burst {
				c.Inconclusive(sub, i, "burst-did-not-reach-B", fmt.Sprint(arrived), nil)
				rcS.Close()
				return
			}
			time.Sleep(200 * time.Millisecond)
			gotS := map[string]bool{}
			for k := 0; k < burst; k++ {
				ctx, cancel := context.WithTimeout(context.Background(), 10*time.Second)
				a, err := rcS.Next(ctx)
				cancel()
				if err != nil {
					break
				}
				if want[a.Cid.String()] {
					gotS[a.Cid.String()] = true
				} else {
					k-- // (a straggler of the warm-up)
				}
			}
			rcS.Close()
			if len(gotS) != burst {
				c.Fail(sub, i, "pubsub-burst-not-all-delivered", fmt.Sprintf("%d of %d announcements that arrived while the consumer was not waiting were delivered afterwards", len(gotS), burst), wit())
				return
			}
			c.Inc("pubsub_bursts_delivered_to_a_late_consumer")
		}
		// (a3) a plain announcement published on B's own host and topic (an indexer that also publishes): it is not a
		// republication of B's, its source (B's host) passes B's filter in every mode but "only-relay"/"only-original"
		// where the filter names other peers, so it is judged like any other announcement
		if sndB, err := p2psender.New(nil, "", p2psender.WithTopic(topics[2])); err == nil {
			cidOwn := c09Cid(750000 + i)
			mo := message.Message{Cid: cidOwn}
			mo.SetAddrs([]multiaddr.Multiaddr{pubAddr})
			if err := sndB.Send(context.Background(), mo); err == nil && bAllow(hB.ID()) {
				if _, got := waitFor(colB, 20*time.Second, func(a announce.Announce) bool { return a.Cid.Equals(cidOwn) }); !got {
					c.Fail(sub, i, "announcement-published-on-the-receivers-own-host-not-delivered", "a plain (not republished) announcement from the receiver's own host, allowed by its filter, never reached its consumer", wit())
					return
				}
				c.Inc("own_host_plain_announcements_delivered")
			}
			sndB.Close()
		}
		// (b) a direct announcement at the relay R for publisher P
		cid2 := c09Cid(720000 + i)
		if err := rcR.Direct(context.Background(), cid2, peer.AddrInfo{ID: P.ID, Addrs: []multiaddr.Multiaddr{pubAddr, privAddr}}); err != nil {
			c.Fail(sub, i, "direct-error", err.Error(), wit())
			return
		}
		if bMode == "only-relay" {
			// B allows the relay but not the original publisher: the republication is an announcement of P and must
			// not be delivered. Decided once B's filter has been consulted for that message.
			for w := 0; w < 4000 && bConsulted.Load() == 0; w++ {
				time.Sleep(5 * time.Millisecond)
			}
			if bConsulted.Load() == 0 {
				c.Inconclusive(sub, i, "republication-never-reached-B", "", nil)
				return
			}
			time.Sleep(100 * time.Millisecond)
			if nB := countOf(colB, func(a announce.Announce) bool { return a.Cid.Equals(cid2) }); nB != 0 {
				c.Fail(sub, i, "republication-of-disallowed-publisher-delivered", fmt.Sprintf("B allows only the relay; the republished announcement of %s was delivered %d time(s)", P.ID, nB), wit())
			}
			c.Inc("pubsub_runs_completed")
			c.Inc("pubsub_republication_of_disallowed_publisher")
			return
		}
		b, got := waitFor(colB, 20*time.Second, func(a announce.Announce) bool { return a.Cid.Equals(cid2) })
		if !got {
			c.Fail(sub, i, "republication-not-received", "B never saw the relay's republication (allow filter on B: "+bMode+")", wit())
			return
		}
		// address filtering applies to republished announcements as to any other
		rPriv, rPub := false, false
		for _, ad := range b.Addrs {
			if ad.Equal(privAddr) {
				rPriv = true
			}
			if ad.Equal(pubAddr) {
				rPub = true
			}
		}
		if !rPub || rPriv == filterB {
			c.Fail(sub, i, "republished-announcement-address-filtering", fmt.Sprintf("addrs %v filter=%v", maStrings(b.Addrs), filterB), wit())
		}
		if b.PeerID != P.ID {
			key := "republication-misattributed"
			if b.PeerID == hR.ID() {
				key = "republication-attributed-to-relay"
			}
			c.Fail(sub, i, key, fmt.Sprintf("peer %s want original publisher %s", b.PeerID, P.ID), wit())
		}
		// (c) marker from A orders the observation after the relay's loop-back
		cid3 := c09Cid(730000 + i)
		m3 := message.Message{Cid: cid3}
		m3.SetAddrs([]multiaddr.Multiaddr{pubAddr})
		_ = snd.Send(context.Background(), m3)
		if _, got := waitFor(colR, 20*time.Second, func(a announce.Announce) bool { return a.Cid.Equals(cid3) }); !got {
			c.Inconclusive(sub, i, "marker-not-seen", "", nil)
			return
		}
		if nR := countOf(colR, func(a announce.Announce) bool { return a.Cid.Equals(cid2) }); nR != 1 {
			c.Fail(sub, i, "relay-delivered-direct-announce-not-once", fmt.Sprint(nR), wit())
		}
		v, _ := relayAllowCalls.Load(P.ID)
		calls := int64(0)
		if v != nil {
			calls = v.(*atomic.Int64).Load()
		}
		if calls != 1 {
			c.Fail(sub, i, "relay-reacted-to-own-republication", fmt.Sprintf("the relay's allow filter was consulted %d times for the directly announced publisher (want 1)", calls), wit())
		}
		if nB := countOf(colB, func(a announce.Announce) bool { return a.Cid.Equals(cid2) }); nB != 1 {
			c.Fail(sub, i, "republication-delivered-not-once", fmt.Sprint(nB), wit())
		}
		// (d) an announcement that cannot be republished (its CID is too long for the wire encoding) is an
		// allowed, new announcement all the same: the relay's own consumer gets it
		mhL, _ := multihash.Sum(rbytes(r, 560+r.Intn(200)), multihash.IDENTITY, -1)
		cid4 := cid.NewCidV1(cid.Raw, mhL)
		if err := rcR.Direct(context.Background(), cid4, peer.AddrInfo{ID: P.ID, Addrs: []multiaddr.Multiaddr{pubAddr}}); err != nil {
			c.Fail(sub, i, "direct-error-when-republication-fails", err.Error(), wit())
		} else if _, got := waitFor(colR, 20*time.Second, func(a announce.Announce) bool { return a.Cid.Equals(cid4) }); !got {
			c.Fail(sub, i, "announcement-not-delivered-when-republication-fails", "the relay's consumer never saw the directly announced advertisement", wit())
		} else {
			c.Inc("delivered_although_republication_failed")
		}
		c.Inc("pubsub_runs_completed")
		c.Inc("pubsub_allow_filter_on_B_" + bMode)
	})
	rcR.Close()
	rcB.Close()
	snd.Close()
	cleanup()
	c.Eval(3)
	c.Distinct(sub, fmt.Sprint(filterB, bMode, i))
	if c.WantSample(sub) {
		c.Sample(sub, wit())
	}
	return ""
}

var _ = vf.Returned
