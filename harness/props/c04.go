package props

import (
	"github.com/libp2p/go-libp2p/core/host"
	"bytes"
	"context"
	"errors"
	"fmt"
	"math/rand"
	"strings"
	"sync"
	"time"

	"github.com/ipfs/go-cid"
	cidlink "github.com/ipld/go-ipld-prime/linking/cid"
	"github.com/ipni/go-libipni/dagsync"
	"github.com/libp2p/go-libp2p/core/peer"
	"github.com/multiformats/go-multiaddr"
	"github.com/multiformats/go-multihash"

	"verif/harness/vf"
)

func init() { Registry["C04"] = runC04 }

var c04Kinds = []string{"status-400", "status-403", "status-404", "status-500", "status-503", "reset", "truncated-body", "corrupt-body", "stall", "ctx-cancel", "hook-fail", "hook-ctx-cancel"}

type c04Fault struct {
	Kind string
	At   int // request index within the faulty phase (for hook-fail: block index)
}

type c04Case struct {
	Faults    []c04Fault
	Announced bool
	Seg       int64
	Mount     FrontMode
	Addrs     string // one | live-dead | dead-live
	Baseline  string // synced | set-latest
	MaxAsync  int    // >0: MaxAsyncConcurrency of the subscriber (announced cases)
	RetryBare bool   // the retry names the publisher only (no address): the one the failed sync was given is still known
}

func (k c04Case) String() string {
	var fs []string
	for _, f := range k.Faults {
		fs = append(fs, fmt.Sprintf("%s@%d", f.Kind, f.At))
	}
	return fmt.Sprintf("faults=[%s] announced=%v seg=%d mount=%s addrs=%s baseline=%s max-async=%d retry-without-address=%v", strings.Join(fs, ","), k.Announced, k.Seg, k.Mount, k.Addrs, k.Baseline, k.MaxAsync, k.RetryBare)
}

// classification key used for known findings
func (k c04Case) classKey() string {
	kinds := map[string]bool{}
	for _, f := range k.Faults {
		cl := f.Kind
		switch {
		case f.Kind == "status-404" || f.Kind == "status-403":
			cl = "not-found-or-forbidden"
		case strings.HasPrefix(f.Kind, "status-"):
			cl = "error-status"
		case f.Kind == "reset" || f.Kind == "stall" || f.Kind == "truncated-body":
			cl = "transport-error"
		case f.Kind == "hook-ctx-cancel":
			cl = "ctx-cancel"
		}
		kinds[cl] = true
	}
	var ks []string
	for _, x := range []string{"not-found-or-forbidden", "error-status", "transport-error", "corrupt-body", "ctx-cancel", "hook-fail"} {
		if kinds[x] {
			ks = append(ks, x)
		}
	}
	return fmt.Sprintf("%s/%s/%s", k.Mount, k.Addrs, strings.Join(ks, "+"))
}

const c04Base = 1 // index of the baseline latest-synced advertisement
const c04Head = 4 // index of the head synced in the faulty phase

type c04Run struct {
	k       c04Case
	env     *c04Env
	dst     *Store
	sub     *dagsync.Subscriber
	evs     <-chan dagsync.SyncFinished
	cancel  context.CancelFunc
	hl      *hookLog
	pi      peer.AddrInfo
	failAt  map[int]bool // chain indices where the hook signals failure (phase-scoped)
	cancelAt map[int]bool // chain indices where the hook cancels the caller's context
	failOn  bool
	mu      sync.Mutex
	ctxStop context.CancelFunc
	hookFailed int // FailSync calls made by the hook
	tl      *tapLog
}

type c04Env struct {
	c     *vf.Ctx
	pub   *Store
	chain *Chain
	id    Ident
	front map[FrontMode]*Front
	dead  multiaddr.Multiaddr
}

// newC04Env builds the publisher fronts; realTCP selects kernel sockets (transport-level faults as RST,
// truncated responses and dead ports with full fidelity) instead of the in-memory network. Most cases use the
// in-memory network so that the check does not depend on free ephemeral ports; one case in eight uses sockets.
func newC04Env(c *vf.Ctx, r *rand.Rand, realTCP bool) (*c04Env, error) {
	RealTCPFronts = realTCP
	defer func() { RealTCPFronts = false }()
	e := &c04Env{c: c, pub: NewStore(), id: Keys()["ed25519"][1], front: map[FrontMode]*Front{}}
	var err error
	e.chain, err = NewChain(r, e.pub, c04Head+1, e.id.ID, linkProto(multihash.SHA2_256, -1))
	if err != nil {
		return nil, err
	}
	for _, m := range []FrontMode{MountPlain, MountLegacy, MountDiscovery, MountStream} {
		f, err := NewFront(c, e.id, e.pub, m, "")
		if err != nil {
			return nil, err
		}
		e.front[m] = f
	}
	// an address nobody listens on. (A port that was bound and closed again can be handed to another
	// process, e.g. another shard's front, while the run is going on; port 1 is never listening here.)
	e.dead = multiaddr.StringCast("/ip4/127.0.0.1/tcp/1/http")
	return e, nil
}

func (e *c04Env) close() {
	for _, f := range e.front {
		f.Close()
	}
}

// plan installs the fault script for the faulty phase on the front.
func (ru *c04Run) plan(front *Front, active *bool) {
	var mu sync.Mutex
	count := 0
	sticky := map[string]c04Fault{} // resource -> fault that keeps applying (transport retries)
	front.Plan = func(ev ReqEvent) *Fault {
		mu.Lock()
		defer mu.Unlock()
		if !*active {
			return nil
		}
		idx := count
		count++
		f, ok := sticky[ev.Rsrc]
		if !ok {
			for _, cf := range ru.k.Faults {
				if cf.Kind != "hook-fail" && cf.Kind != "hook-ctx-cancel" && cf.At == idx {
					f, ok = cf, true
					sticky[ev.Rsrc] = cf
				}
			}
		}
		if !ok {
			return nil
		}
		ru.env.c.Inc("fault_hit_" + f.Kind)
		switch f.Kind {
		case "status-400":
			return &Fault{Status: 400, Label: f.Kind}
		case "status-403":
			return &Fault{Status: 403, Label: f.Kind}
		case "status-404":
			return &Fault{Status: 404, Label: f.Kind}
		case "status-500":
			return &Fault{Status: 500, Label: f.Kind}
		case "status-503":
			return &Fault{Status: 503, Label: f.Kind}
		case "reset":
			return &Fault{Reset: true, Label: f.Kind}
		case "truncated-body":
			return &Fault{Truncate: 7, Label: f.Kind}
		case "corrupt-body":
			return &Fault{Label: f.Kind, Mutate: func(b []byte) []byte {
				if len(b) == 0 {
					return []byte("x")
				}
				b[len(b)/2] ^= 0x20
				return b
			}}
		case "stall":
			ch := make(chan struct{})
			return &Fault{Stall: ch, Label: f.Kind}
		case "ctx-cancel":
			return &Fault{Label: f.Kind, OnArrive: func() {
				ru.mu.Lock()
				if ru.ctxStop != nil {
					ru.ctxStop()
				}
				ru.mu.Unlock()
			}, Gate: closedAfter(50 * time.Millisecond)}
		}
		return nil
	}
}

func closedAfter(d time.Duration) <-chan struct{} {
	ch := make(chan struct{})
	go func() { time.Sleep(d); close(ch) }()
	return ch
}

func runC04(c *vf.Ctx) {
	c04Unusable(c)
	const sub = "fault-then-retry"
	if !c.Active(sub) {
		return
	}
	env, err := newC04Env(c, c.Rand(sub, -1), false)
	if err != nil {
		c.Fail(sub, -1, "harness-env", err.Error(), nil)
		return
	}
	defer env.close()
	envTCP, err := newC04Env(c, c.Rand(sub, -1), true)
	if err != nil {
		c.Fail(sub, -1, "harness-env", err.Error(), nil)
		return
	}
	defer envTCP.close()
	n := c.N(1200, 12000)
	for i := 0; i < n; i++ {
		if !c.Mine(sub, i) {
			continue
		}
		r := c.Rand(sub, i)
		k := c04Case{Announced: r.Intn(3) == 0, Mount: []FrontMode{MountPlain, MountPlain, MountLegacy, MountDiscovery, MountStream}[r.Intn(5)],
			Baseline: []string{"synced", "set-latest"}[r.Intn(2)]}
		if r.Intn(3) == 0 {
			k.Seg = int64(1 + r.Intn(3))
		}
		switch r.Intn(6) {
		case 0:
			k.Addrs = "live-dead"
		case 1:
			k.Addrs = "dead-live"
		default:
			k.Addrs = "one"
		}
		if k.Announced && r.Intn(3) == 0 {
			k.MaxAsync = 1 // a failed sync must give its slot back, or the re-announcement never gets one
		}
		if k.Mount == MountStream {
			k.Addrs = "one" // (a libp2p peer is dialled as a whole; there is no per-address failover to script)
		}
		k.RetryBare = k.Addrs == "one" && r.Intn(4) == 0
		nf := 1
		if r.Intn(4) == 0 {
			nf = 2
		}
		maxReq := 4 // head + 3 blocks
		if k.Baseline == "set-latest" {
			maxReq += 3 // discovery probes come first
		}
		for len(k.Faults) < nf {
			kind := c04Kinds[r.Intn(len(c04Kinds))]
			if kind == "stall" && r.Intn(3) != 0 {
				continue // stalls cost a client timeout each: sampled
			}
			if (kind == "ctx-cancel" || kind == "hook-ctx-cancel") && k.Announced {
				continue // the caller's context only governs explicit syncs
			}
			if kind == "hook-ctx-cancel" {
				// the caller's context is cancelled from inside the block hook, i.e. between two segments
				if k.Seg == 0 {
					k.Seg = int64(1 + r.Intn(2))
				}
				k.Faults = append(k.Faults, c04Fault{kind, 2 + r.Intn(3)})
				continue
			}
			if kind == "hook-fail" {
				if k.Seg == 0 {
					k.Seg = int64(1 + r.Intn(3)) // FailSync only has an effect in segmented syncs
				}
				k.Faults = append(k.Faults, c04Fault{kind, 2 + r.Intn(3)})
				continue
			}
			k.Faults = append(k.Faults, c04Fault{kind, r.Intn(maxReq)})
		}
		c.Cur(sub, i, k.String())
		if (i/c.NShards)%8 == 0 {
			c.Inc("cases_over_real_sockets")
			c04One(c, sub, i, envTCP, k)
		} else {
			c04One(c, sub, i, env, k)
		}
	}
}

func (ru *c04Run) hook() dagsync.BlockHookFunc {
	inner := adPrevHook(ru.dst, ru.hl)
	return func(p peer.ID, cd cid.Cid, act dagsync.SegmentSyncActions) {
		inner(p, cd, act)
		ru.mu.Lock()
		fail := ru.failOn && ru.failAt[ru.env.chain.Pos(cd)]
		ru.mu.Unlock()
		ru.mu.Lock()
		cancelNow := ru.failOn && ru.cancelAt[ru.env.chain.Pos(cd)] && ru.ctxStop != nil
		stop := ru.ctxStop
		ru.mu.Unlock()
		if cancelNow {
			ru.env.c.Inc("fault_hit_hook-ctx-cancel")
			stop()
		}
		if fail {
			ru.env.c.Inc("fault_hit_hook-fail")
			ru.mu.Lock()
			ru.hookFailed++
			ru.mu.Unlock()
			act.FailSync(errors.New("injected hook failure"))
		}
	}
}

type c04Obs struct {
	err       error
	events    []dagsync.SyncFinished
	latest    cid.Cid
	requests  []string
	hooks     []int
	storeBad  []string
}

func latestOf(s *dagsync.Subscriber, p peer.ID) cid.Cid {
	if l := s.GetLatestSync(p); l != nil {
		return l.(cidlink.Link).Cid
	}
	return cid.Undef
}

// syncOnce runs one sync (explicit or by announcement) and returns what was observed.
// For announcements it waits for the one notification the property promises.
func (ru *c04Run) syncOnce(front *Front, head cid.Cid, withCtxCancel bool) c04Obs {
	var o c04Obs
	front.ResetLog()
	ru.hl.reset()
	if ru.k.Announced {
		tl := ru.tl
		recvBefore := tl.count("watch.recv")
		fwdBefore := tl.count("dist.forward")
		err := ru.sub.Announce(context.Background(), head, ru.pi)
		if err != nil {
			o.err = fmt.Errorf("announce: %w", err)
		} else {
			// the one notification, or the logical end of the announcement's handling without one (the watcher took
			// the announcement, every handling goroutine started has exited, the distributor has taken up every
			// notification sent); the deadline only bounds the wait for an announcement that never reaches the watcher
			deadline := time.Now().Add(90 * time.Second)
			o.err = errNoNotification
		wait:
			for time.Now().Before(deadline) {
				select {
				case ev := <-ru.evs:
					o.events = append(o.events, ev)
					o.err = ev.Err
					break wait
				case <-time.After(500 * time.Microsecond):
				}
				// (one snapshot of the counters: a condition over counters read one after the other can come out true
				// although it never held)
				n, _ := tl.snapshot()
				if n["watch.recv"] > recvBefore && n["watch.recv"] == n["watch.swap.spawn"]+n["watch.swap.replaced"] &&
					n["watch.swap.spawn"] == n["async.enter"] && n["async.enter"] == n["async.exit"] &&
					n["event.emit.begin"] == n["event.emit.end"] && n["dist.forward"] == n["event.emit.end"] {
					// the distributor's send to the listener queue follows its tap: if it has forwarded a notification
					// since this announcement was made, that notification is on its way to the listener, however busy
					// the machine is; otherwise there is none to wait for
					if tl.count("dist.forward") > fwdBefore {
						select {
						case ev := <-ru.evs:
							o.events = append(o.events, ev)
							o.err = ev.Err
						case <-time.After(60 * time.Second):
						}
					} else {
						time.Sleep(2 * time.Millisecond)
						select {
						case ev := <-ru.evs:
							o.events = append(o.events, ev)
							o.err = ev.Err
						default:
						}
					}
					break wait
				}
			}
		}
	} else {
		ctx, stop := context.WithCancel(context.Background())
		ru.mu.Lock()
		ru.ctxStop = nil
		if withCtxCancel {
			ru.ctxStop = stop
		}
		ru.mu.Unlock()
		// (bounded progress: against any publisher behaviour the call ends — with a result or an error — long before this)
		if v, dump := vf.Watch(150*time.Second, func() { _, o.err = ru.sub.SyncAdChain(ctx, ru.pi) }); v != vf.Returned {
			stop()
			o.err = fmt.Errorf("%w\n%s", errSyncDidNotEnd, dump)
			time.Sleep(2 * time.Second) // the cancelled call gets a chance to unwind
		}
		stop()
		// any notification of this sync has been handed to the distributor before SyncAdChain returned;
		// give the distributor a chance and collect without blocking
		deadline := time.Now().Add(50 * time.Millisecond)
		if o.err == nil {
			deadline = time.Now().Add(30 * time.Second)
		}
		for time.Now().Before(deadline) {
			select {
			case ev := <-ru.evs:
				o.events = append(o.events, ev)
			default:
				time.Sleep(time.Millisecond)
				continue
			}
			break
		}
	}
	o.latest = latestOf(ru.sub, ru.env.id.ID)
	o.requests = BlockRequests(front.Log())
	o.hooks = idxList(ru.env.chain, ru.hl.list())
	_, o.storeBad = ru.dst.Audit()
	return o
}

func c04One(c *vf.Ctx, sub string, i int, env *c04Env, k c04Case) {
	front := env.front[k.Mount]
	ru := &c04Run{k: k, env: env, dst: NewStore(), hl: &hookLog{}, failAt: map[int]bool{}, cancelAt: map[int]bool{}}
	for _, f := range k.Faults {
		if f.Kind == "hook-fail" {
			ru.failAt[f.At] = true
		}
		if f.Kind == "hook-ctx-cancel" {
			ru.cancelAt[f.At] = true
		}
	}
	opts := []dagsync.Option{dagsync.BlockHook(ru.hook()), dagsync.HttpTimeout(1500 * time.Millisecond)}
	if k.Seg != 0 {
		opts = append(opts, dagsync.SegmentDepthLimit(k.Seg))
	}
	if k.Announced {
		opts = append(opts, dagsync.RecvAnnounce(""))
	}
	if k.MaxAsync > 0 {
		opts = append(opts, dagsync.MaxAsyncConcurrency(k.MaxAsync))
		c.Inc("announced_cases_with_a_concurrency_limit")
	}
	var s *dagsync.Subscriber
	var err error
	if k.Mount == MountStream {
		// the publisher is reached over libp2p streams: the subscriber has a libp2p host of its own
		subHost, herr := newHost()
		if herr != nil {
			c.Inconclusive(sub, i, "host-create", herr.Error(), nil)
			return
		}
		defer subHost.Close()
		s, err = dagsync.NewSubscriber(subHost, ru.dst.Lsys, opts...)
	} else {
		s, err = newSubscriber(ru.dst, opts...)
	}
	if err != nil {
		c.Fail(sub, i, "harness-subscriber", err.Error(), nil)
		return
	}
	ru.sub = s
	ru.tl = installTap(c, int64(i), 0)
	defer ru.tl.uninstall()
	ru.evs, ru.cancel = s.OnSyncFinished()
	switch k.Addrs {
	case "one":
		ru.pi = front.AddrInfo()
	case "live-dead":
		ru.pi = peer.AddrInfo{ID: env.id.ID, Addrs: []multiaddr.Multiaddr{front.Addr, env.dead}}
	case "dead-live":
		ru.pi = peer.AddrInfo{ID: env.id.ID, Addrs: []multiaddr.Multiaddr{env.dead, front.Addr}}
	}
	active := false
	ru.plan(front, &active)
	var phases []string
	var faulty, retry, reann c04Obs
	wit := func() any {
		return map[string]any{"case": k.String(), "class": k.classKey(), "phases": phases,
			"faulty_sync": map[string]any{"err": fmt.Sprint(faulty.err), "requests": faulty.requests, "hooks": faulty.hooks, "latest": faulty.latest.String()},
			"retry": map[string]any{"err": fmt.Sprint(retry.err), "requests": retry.requests, "hooks": retry.hooks, "latest": retry.latest.String()}}
	}
	defer func() {
		front.Plan = nil
		ru.cancel()
		s.Close()
	}()
	c.Guard(sub, i, wit, func() {
		base := env.chain.Cids[c04Base]
		head := env.chain.Cids[c04Head]
		// ---- phase 0: baseline ------------------------------------------------------
		front.Pub.SetRoot(base)
		if k.Baseline == "synced" {
			o := ru.syncOnce(front, base, false)
			// (the baseline is a precondition of the case, not a clause of the property: no fault has been injected yet.
			// On a heavily loaded machine the libp2p connection of the very first sync can time out; it is tried
			// again, and a baseline that cannot be established leaves the case undecided)
			for try := 0; try < 3 && (o.err != nil || !o.latest.Equals(base)); try++ {
				c.Inc("baseline_sync_retries")
				time.Sleep([]time.Duration{100 * time.Millisecond, 500 * time.Millisecond, 2 * time.Second}[try])
				o = ru.syncOnce(front, base, false)
			}
			if o.err != nil || !o.latest.Equals(base) {
				c.Inconclusive(sub, i, "baseline-sync-failed:"+k.classKey(), fmt.Sprint(o.err), wit())
				return
			}
			phases = append(phases, "baseline synced")
		} else {
			for x := 0; x <= c04Base; x++ {
				raw, _ := env.pub.Raw(env.chain.Cids[x])
				ru.dst.PutRaw(env.chain.Cids[x], raw)
			}
			_ = s.SetLatestSync(env.id.ID, base)
			phases = append(phases, "baseline set with SetLatestSync and pre-stored blocks")
		}
		// ---- phase 1: faulty sync of the new head -------------------------------------
		front.Pub.SetRoot(head)
		active = true
		ru.mu.Lock()
		ru.failOn = true
		ru.mu.Unlock()
		hasCancel := false
		for _, f := range k.Faults {
			if f.Kind == "ctx-cancel" || f.Kind == "hook-ctx-cancel" {
				hasCancel = true
			}
		}
		faulty = ru.syncOnce(front, head, hasCancel)
		active = false
		ru.mu.Lock()
		ru.failOn = false
		ru.mu.Unlock()
		front.Plan = nil
		phases = append(phases, fmt.Sprintf("faulty sync: err=%v", faulty.err))
		if faulty.err == errNoNotification {
			c.Fail(sub, i, "no-notification-for-announced-sync:"+k.classKey(), "", wit())
			return
		}
		if errors.Is(faulty.err, errSyncDidNotEnd) {
			c.Fail(sub, i, "sync-neither-completes-nor-fails:"+k.classKey(), faulty.err.Error(), wit())
			return
		}
		if len(faulty.storeBad) > 0 {
			c.Fail(sub, i, "store-corrupted-by-failed-sync:"+k.classKey(), fmt.Sprint(faulty.storeBad), wit())
		}
		failed := faulty.err != nil
		ru.mu.Lock()
		hf := ru.hookFailed
		ru.mu.Unlock()
		if hf > 0 && !failed {
			// FailSync in a segmented sync "fails the sync ... as soon as the current segment finishes"
			c.Fail(sub, i, "hook-failure-ignored:"+k.classKey(), fmt.Sprintf("the block hook called FailSync %d time(s) in a segmented sync, yet the sync reported success (latest=%s)", hf, faulty.latest), wit())
		}
		if failed {
			c.Inc("faulty_syncs_failed")
			if !faulty.latest.Equals(base) {
				c.Fail(sub, i, "latest-changed-by-failed-sync:"+k.classKey(), faulty.latest.String(), wit())
			}
			for _, ev := range faulty.events {
				if ev.Err == nil {
					c.Fail(sub, i, "success-notification-for-failed-sync:"+k.classKey(), fmt.Sprint(ev), wit())
				}
			}
			if k.Announced && (len(faulty.events) != 1 || faulty.events[0].Err == nil || !faulty.events[0].Cid.Equals(head)) {
				c.Fail(sub, i, "announced-failure-not-one-error-notification:"+k.classKey(), fmt.Sprint(faulty.events), wit())
			}
			if !k.Announced && len(faulty.events) != 0 {
				c.Fail(sub, i, "notification-for-failed-explicit-sync:"+k.classKey(), fmt.Sprint(faulty.events), wit())
			}
			// previously verified blocks remain
			for x := 0; x <= c04Base; x++ {
				raw, ok := ru.dst.Raw(env.chain.Cids[x])
				want, _ := env.pub.Raw(env.chain.Cids[x])
				if !ok || !bytes.Equal(raw, want) {
					c.Fail(sub, i, "verified-block-lost-by-failed-sync:"+k.classKey(), fmt.Sprint(x), wit())
				}
			}
		} else {
			c.Inc("faulty_syncs_survived")
			if !faulty.latest.Equals(head) {
				c.Fail(sub, i, "successful-sync-did-not-set-latest:"+k.classKey(), faulty.latest.String(), wit())
			}
		}
		var secondOK *c04Obs
		// the same head announced again while the publisher is still broken: that sync fails as well and is reported
		// like the first one (one error notification naming the head, nothing else changed)
		if failed && k.Announced && i%3 == 0 {
			front.Plan = func(ev ReqEvent) *Fault {
				if ev.Rsrc == "head" {
					return nil
				}
				return &Fault{Status: 500, Label: "still-broken"}
			}
			second := ru.syncOnce(front, head, false)
			front.Plan = nil
			phases = append(phases, fmt.Sprintf("same head announced again while the publisher is still broken: err=%v", second.err))
			c.Inc("same_head_failing_twice")
			if second.err == errNoNotification {
				c.Fail(sub, i, "no-notification-for-second-failure-of-the-same-head:"+k.classKey(), "", wit())
				return
			}
			if second.err == nil {
				// (every block it still needed was refused, so it cannot have completed unless nothing was missing:
				// then it is the successful retry, and the head is not announced a third time)
				c.Inc("second_announcement_needed_nothing")
				secondOK = &second
			} else if len(second.events) != 1 || second.events[0].Err == nil || !second.events[0].Cid.Equals(head) {
				c.Fail(sub, i, "announced-failure-not-one-error-notification:second-failure:"+k.classKey(), fmt.Sprint(second.events), wit())
			}
			if second.err != nil && !second.latest.Equals(base) {
				c.Fail(sub, i, "latest-changed-by-failed-sync:second-failure:"+k.classKey(), second.latest.String(), wit())
			}
		}
		// blocks verified so far (must not be fetched again by the retry)
		have := map[string]bool{}
		for x := 0; x <= c04Head; x++ {
			if ru.dst.Has(env.chain.Cids[x]) {
				have[env.chain.Cids[x].String()] = true
			}
		}
		// ---- phase 2: the publisher answers correctly again; same head ----------------------
		if failed && k.RetryBare {
			ru.pi.Addrs = nil
			c.Inc("retries_naming_the_publisher_only")
		}
		if failed && k.Announced && secondOK != nil {
			reann = *secondOK
			retry = reann
		} else if failed && k.Announced {
			// the same CID may be announced again and is acted on
			reann = ru.syncOnce(front, head, false)
			phases = append(phases, fmt.Sprintf("re-announcement of the same head: err=%v", reann.err))
			if reann.err == errNoNotification {
				c.Fail(sub, i, "reannouncement-after-failure-ignored:"+k.classKey(), "", wit())
				return
			}
			retry = reann
		} else if failed {
			retry = ru.syncOnce(front, head, false)
			phases = append(phases, fmt.Sprintf("retry: err=%v", retry.err))
		}
		// (no fault is injected any more and the publisher answers from memory: a request that runs into the HTTP
		// client's timeout now is the machine's doing — busy with other work — not the library's; the retry is repeated,
		// and only a timeout that persists counts)
		for try := 0; try < 2 && failed && retry.err != nil && (strings.Contains(retry.err.Error(), "Client.Timeout exceeded") || strings.Contains(retry.err.Error(), "context deadline exceeded")); try++ {
			c.Inc("retries_repeated_after_a_client_timeout")
			time.Sleep(time.Duration(200*(try+1)) * time.Millisecond)
			retry = ru.syncOnce(front, head, false)
			phases = append(phases, fmt.Sprintf("retry repeated after a client timeout: err=%v", retry.err))
		}
		if failed {
			if retry.err != nil {
				c.Fail(sub, i, "retry-after-faults-stopped-failed:"+k.classKey(), retry.err.Error(), wit())
				return
			}
			if !retry.latest.Equals(head) {
				c.Fail(sub, i, "retry-latest-differs-from-fault-free-run:"+k.classKey(), retry.latest.String(), wit())
			}
			for _, q := range retry.requests {
				if have[q] {
					c.Fail(sub, i, "retry-refetched-verified-block:"+k.classKey(), q, wit())
					break
				}
			}
			okEv := 0
			for _, ev := range retry.events {
				if ev.Err == nil && ev.Cid.Equals(head) {
					okEv++
				}
			}
			if okEv != 1 {
				c.Fail(sub, i, "retry-success-notification-count:"+k.classKey(), fmt.Sprint(retry.events), wit())
			}
		}
		// final store == fault-free store: every chain block present and intact, nothing that does not verify
		for x := 0; x <= c04Head; x++ {
			raw, ok := ru.dst.Raw(env.chain.Cids[x])
			want, _ := env.pub.Raw(env.chain.Cids[x])
			if !ok || !bytes.Equal(raw, want) {
				c.Fail(sub, i, "final-store-differs-from-fault-free-run:"+k.classKey(), fmt.Sprintf("block %d", x), wit())
				break
			}
		}
		if _, bad := ru.dst.Audit(); len(bad) > 0 {
			c.Fail(sub, i, "store-corrupted:"+k.classKey(), fmt.Sprint(bad), wit())
		}
		// ---- end: closing the subscriber closes the listener after everything queued; nothing more may come
		s.Close()
		var late []string
		for ev := range ru.evs {
			late = append(late, fmt.Sprintf("%s err=%v", ev.Cid, ev.Err))
		}
		if len(late) > 0 {
			c.Fail(sub, i, "unexpected-extra-notification:"+k.classKey(), fmt.Sprint(late), wit())
		}
	})
	c.Eval(1)
	var fk []string
	for _, f := range k.Faults {
		fk = append(fk, fmt.Sprintf("%s@%d", f.Kind, f.At))
	}
	c.Distinct(sub, strings.Join(fk, ","), fmt.Sprint(k.Announced, k.Seg != 0), k.Mount.String(), k.Addrs, k.Baseline)
	c.Inc("mount_" + k.Mount.String())
	c.Inc("addrs_" + k.Addrs)
	if len(k.Faults) == 2 {
		c.Inc("fault_pairs")
	}
	if c.WantSample(sub) && faulty.err != nil {
		c.Sample(sub, wit())
	}
}

// c04Unusable: the sync fails before any request is made, because no sync client can be made from the addresses
// that came with the call or the announcement (a plain TCP address for a subscriber without a libp2p host, or no
// address at all for an unknown publisher). It is a failed sync like any other: nothing durable changes, an
// announce-triggered one produces its one error notification and the CID may be announced again, and the next
// sync with a usable address succeeds.
func c04Unusable(c *vf.Ctx) {
	const sub = "unusable-address"
	if !c.Active(sub) {
		return
	}
	env, err := newC04Env(c, c.Rand(sub, -1), false)
	if err != nil {
		c.Fail(sub, -1, "harness-env", err.Error(), nil)
		return
	}
	defer env.close()
	n := c.N(24, 400)
	for i := 0; i < n; i++ {
		if !c.Mine(sub, i) {
			continue
		}
		r := c.Rand(sub, i)
		announced := i%2 == 0
		withHost := (i/2)%2 == 0
		kind := []string{"tcp-only-address", "no-address-unknown-publisher", "udp-only-address"}[(i/4)%3]
		mount := []FrontMode{MountPlain, MountLegacy, MountDiscovery}[r.Intn(3)]
		desc := fmt.Sprintf("announced=%v subscriber-has-libp2p-host=%v addresses=%s mount=%s", announced, withHost, kind, mount)
		c.Cur(sub, i, desc)
		front := env.front[mount]
		front.Plan = nil
		front.ResetLog()
		dst := NewStore()
		hl := &hookLog{}
		var h host.Host
		if withHost {
			if h, err = newHost(); err != nil {
				c.Inconclusive(sub, i, "host-create", err.Error(), nil)
				continue
			}
		}
		tl := installTap(c, r.Int63(), 0)
		var s *dagsync.Subscriber
		opts := []dagsync.Option{dagsync.BlockHook(adPrevHook(dst, hl)), dagsync.HttpTimeout(2 * time.Second), dagsync.RecvAnnounce("")}
		if h != nil {
			s, err = dagsync.NewSubscriber(h, dst.Lsys, opts...)
		} else {
			s, err = dagsync.NewSubscriber(nil, dst.Lsys, opts...)
		}
		if err != nil {
			c.Fail(sub, i, "harness-subscriber", err.Error(), nil)
			tl.uninstall()
			continue
		}
		evs, cancel := s.OnSyncFinished()
		var phases []string
		wit := func() any { return map[string]any{"case": desc, "phases": phases, "requests": BlockRequests(front.Log())} }
		bad := peer.AddrInfo{ID: env.id.ID}
		switch kind {
		case "tcp-only-address":
			bad.Addrs = []multiaddr.Multiaddr{multiaddr.StringCast("/ip4/127.0.0.1/tcp/1")}
		case "udp-only-address":
			bad.Addrs = []multiaddr.Multiaddr{multiaddr.StringCast("/ip4/127.0.0.1/udp/1")}
		}
		base, head := env.chain.Cids[c04Base], env.chain.Cids[c04Head]
		// one sync, explicit or announced; for an announcement the end of its handling is detected logically
		// (every handling goroutine that was started has exited and the distributor has taken up what was sent)
		doSync := func(pi peer.AddrInfo) (error, []dagsync.SyncFinished) {
			var got []dagsync.SyncFinished
			drain := func() {
				deadline := time.Now().Add(30 * time.Second)
				for time.Now().Before(deadline) && tl.count("dist.forward") < tl.count("event.emit.end") {
					time.Sleep(200 * time.Microsecond)
				}
				time.Sleep(time.Millisecond)
				for {
					select {
					case ev := <-evs:
						got = append(got, ev)
						continue
					default:
					}
					break
				}
			}
			if !announced {
				_, err := s.SyncAdChain(context.Background(), pi)
				drain()
				return err, got
			}
			recvBefore := tl.count("watch.recv")
			if err := s.Announce(context.Background(), head, pi); err != nil {
				return fmt.Errorf("announce: %w", err), nil
			}
			deadline := time.Now().Add(60 * time.Second)
			quiet := false
			for time.Now().Before(deadline) {
				n, _ := tl.snapshot() // (one snapshot: see syncOnce)
				if n["watch.recv"] == recvBefore {
					// (an announcement of a CID the receiver has seen and not un-cached is dropped before the watcher)
					if time.Now().After(deadline.Add(-58 * time.Second)) {
						break
					}
				} else if n["watch.recv"] == n["watch.swap.spawn"]+n["watch.swap.replaced"] &&
					n["watch.swap.spawn"] == n["async.enter"] && n["async.enter"] == n["async.exit"] &&
					n["event.emit.begin"] == n["event.emit.end"] {
					quiet = true
					break
				}
				time.Sleep(300 * time.Microsecond)
			}
			drain()
			if tl.count("watch.recv") == recvBefore {
				return errAnnouncementDropped, got
			}
			if !quiet {
				return errNoNotification, got
			}
			if len(got) == 0 {
				return errHandledWithoutNotification, got
			}
			return got[len(got)-1].Err, got
		}
		c.Guard(sub, i, wit, func() {
			for x := 0; x <= c04Base; x++ {
				raw, _ := env.pub.Raw(env.chain.Cids[x])
				dst.PutRaw(env.chain.Cids[x], raw)
			}
			_ = s.SetLatestSync(env.id.ID, base)
			front.Pub.SetRoot(head)
			writes := dst.NumWrites()
			// ---- phase 1: unusable addresses
			err1, ev1 := doSync(bad)
			phases = append(phases, fmt.Sprintf("sync with unusable addresses: err=%v notifications=%d", err1, len(ev1)))
			switch {
			case err1 == nil:
				c.Fail(sub, i, "sync-with-unusable-address-succeeded:"+kind, "", wit())
				return
			case err1 == errNoNotification:
				c.Inconclusive(sub, i, "announcement-handling-did-not-end", "", wit())
				return
			case err1 == errHandledWithoutNotification:
				c.Fail(sub, i, "failed-announce-sync-without-notification:"+kind, "the announcement was taken up, its handling ended, and no notification was sent", wit())
			case err1 == errAnnouncementDropped:
				c.Fail(sub, i, "announcement-dropped:"+kind, "", wit())
				return
			}
			c.Inc("unusable_address_syncs_failed")
			if l := latestOf(s, env.id.ID); !l.Equals(base) {
				c.Fail(sub, i, "latest-changed-by-failed-sync:"+kind, l.String(), wit())
			}
			if dst.NumWrites() != writes || len(hl.list()) != 0 {
				c.Fail(sub, i, "failed-sync-wrote-or-reported-blocks:"+kind, "", wit())
			}
			for _, ev := range ev1 {
				if ev.Err == nil {
					c.Fail(sub, i, "success-notification-for-failed-sync:"+kind, fmt.Sprint(ev), wit())
				}
			}
			if announced && err1 != errHandledWithoutNotification && (len(ev1) != 1 || !ev1[0].Cid.Equals(head)) {
				c.Fail(sub, i, "announced-failure-not-one-error-notification:"+kind, fmt.Sprint(ev1), wit())
			}
			if !announced && len(ev1) != 0 {
				c.Fail(sub, i, "notification-for-failed-explicit-sync:"+kind, fmt.Sprint(ev1), wit())
			}
			// ---- phase 2: the same head with a usable address
			err2, ev2 := doSync(front.AddrInfo())
			phases = append(phases, fmt.Sprintf("same head with the publisher's real address: err=%v notifications=%d", err2, len(ev2)))
			if err2 == errAnnouncementDropped {
				c.Fail(sub, i, "reannouncement-after-failure-ignored:"+kind, "the CID of the failed announce-triggered sync cannot be announced again", wit())
				return
			}
			if err2 != nil {
				c.Fail(sub, i, "retry-after-faults-stopped-failed:"+kind, err2.Error(), wit())
				return
			}
			if l := latestOf(s, env.id.ID); !l.Equals(head) {
				c.Fail(sub, i, "retry-latest-differs-from-fault-free-run:"+kind, l.String(), wit())
			}
			ok := 0
			for _, ev := range ev2 {
				if ev.Err == nil && ev.Cid.Equals(head) {
					ok++
				}
			}
			if ok != 1 {
				c.Fail(sub, i, "retry-success-notification-count:"+kind, fmt.Sprint(ev2), wit())
			}
			for x := 0; x <= c04Head; x++ {
				raw, okb := dst.Raw(env.chain.Cids[x])
				want, _ := env.pub.Raw(env.chain.Cids[x])
				if !okb || !bytes.Equal(raw, want) {
					c.Fail(sub, i, "final-store-differs-from-fault-free-run:"+kind, fmt.Sprintf("block %d", x), wit())
					break
				}
			}
		})
		cancel()
		s.Close()
		tl.uninstall()
		if h != nil {
			h.Close()
		}
		c.Eval(2)
		c.Inc("unusable_address_cases")
		c.Distinct(sub, desc)
	}
}

var errSyncDidNotEnd = errors.New("the sync neither completed nor failed within 150 s")
var errAnnouncementDropped = errors.New("announcement was dropped before it reached the subscriber's watcher")
var errHandledWithoutNotification = errors.New("announcement handled without a notification")
