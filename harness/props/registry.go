// Package props holds one monitor per property (C01..C20).
package props

import "verif/harness/vf"

// Registry maps a property id to its monitor.
var Registry = map[string]func(*vf.Ctx){}
