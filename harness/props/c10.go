package props

import (
	"strings"
	cbg "github.com/whyrusleeping/cbor-gen"
	"bytes"
	"context"
	"encoding/binary"
	"encoding/hex"
	"encoding/json"
	"fmt"
	"io"
	"math/rand"
	"net/http"
	"net/url"
	"sync"
	"testing/iotest"
	"time"

	"github.com/ipfs/go-cid"
	"github.com/ipni/go-libipni/announce/httpsender"
	"github.com/ipni/go-libipni/announce/p2psender"
	"github.com/libp2p/go-libp2p/core/host"
	"github.com/ipni/go-libipni/announce/message"
	"github.com/multiformats/go-multiaddr"
	"github.com/multiformats/go-multihash"

	"verif/harness/vf"
)

func init() { Registry["C10"] = runC10 }

func c10Cid(r *rand.Rand) cid.Cid {
	if r.Intn(12) == 0 {
		// identity-hashed CIDs carry their content inline and can be long
		n := []int{0, 1, 36, 200, 480, 500, 503, 504, 505, 506, 507, 508, 509, 510, 520, 600, 2000}[r.Intn(17)]
		mh, _ := multihash.Sum(rbytes(r, n), multihash.IDENTITY, -1)
		return cid.NewCidV1([]uint64{cid.Raw, cid.DagCBOR, cid.DagJSON}[r.Intn(3)], mh)
	}
	if r.Intn(5) == 0 {
		mh, _ := multihash.Sum(rbytes(r, 10), multihash.SHA2_256, -1)
		return cid.NewCidV0(mh)
	}
	return randCid(r)
}

// returns addr bytes and its kind: valid | unknown-proto | raw
func c10Addr(r *rand.Rand) ([]byte, string) {
	switch r.Intn(8) {
	case 0: // unknown protocol code
		b := binary.AppendUvarint(nil, uint64(0x3f00+r.Intn(200)))
		return append(b, rbytes(r, r.Intn(6))...), "unknown-proto"
	case 1: // arbitrary bytes
		return rbytes(r, r.Intn(40)), "raw"
	case 2:
		return nil, "raw"
	case 3: // addresses that already carry a /p2p component (relay, or another peer's id)
		la := c20GenLabAddr(r)
		other, _ := multiaddr.NewComponent("p2p", AnyIdent(r).ID.String())
		ma := la.ma.Encapsulate(other)
		if r.Intn(2) == 0 {
			circ, _ := multiaddr.NewMultiaddr("/p2p-circuit")
			ma = ma.Encapsulate(circ)
		}
		return ma.Bytes(), "valid"
	default:
		la := c20GenLabAddr(r)
		return la.ma.Bytes(), "valid"
	}
}

func c10GenMsg(r *rand.Rand, onlyValidAddrs bool) (message.Message, []string) {
	m := message.Message{Cid: c10Cid(r)}
	n := []int{0, 1, 2, 3, 10, 40}[r.Intn(6)]
	var kinds []string
	for k := 0; k < n; k++ {
		a, kind := c10Addr(r)
		if onlyValidAddrs && kind == "raw" {
			la := c20GenLabAddr(r)
			a, kind = la.ma.Bytes(), "valid"
		}
		m.Addrs = append(m.Addrs, a)
		kinds = append(kinds, kind)
	}
	switch r.Intn(5) {
	case 0:
	case 1:
		m.ExtraData = rbytes(r, 1+r.Intn(64<<10))
	default:
		m.ExtraData = rbytes(r, r.Intn(64))
	}
	if r.Intn(2) == 0 {
		m.OrigPeer = AnyIdent(r).ID.String()
		if r.Intn(6) == 0 {
			m.OrigPeer = []string{"x", "not a peer id", "日本"}[r.Intn(3)]
		}
	}
	return m, kinds
}

func msgDiff(a, b *message.Message) string {
	if !a.Cid.Equals(b.Cid) {
		return "Cid"
	}
	if len(a.Addrs) != len(b.Addrs) {
		return "Addrs length"
	}
	for i := range a.Addrs {
		if !bytes.Equal(a.Addrs[i], b.Addrs[i]) {
			return fmt.Sprintf("Addrs[%d]", i)
		}
	}
	if !bytes.Equal(a.ExtraData, b.ExtraData) {
		return "ExtraData"
	}
	if a.OrigPeer != b.OrigPeer {
		return "OrigPeer"
	}
	return ""
}

func msgWitness(m *message.Message, extra map[string]any) any {
	w := map[string]any{"cid": m.Cid.String(), "orig_peer": m.OrigPeer, "extra_len": len(m.ExtraData)}
	var as []string
	for _, a := range m.Addrs {
		as = append(as, hex.EncodeToString(a))
	}
	w["addrs_hex"] = as
	for k, v := range extra {
		w[k] = v
	}
	return w
}

func runC10(c *vf.Ctx) {
	c10RoundTrip(c)
	c10Senders(c)
	c10Hostile(c)
	c10Crafted(c)
}

func c10RoundTrip(c *vf.Ctx) {
	const sub = "roundtrip"
	if !c.Active(sub) {
		return
	}
	n := c.N(40000, 500000)
	var reused message.Message // decode target that is used again and again (as a receive loop may do)
	for i := 0; i < n; i++ {
		if !c.Mine(sub, i) {
			continue
		}
		r := c.Rand(sub, i)
		m, kinds := c10GenMsg(r, false)
		c.Cur(sub, i, fmt.Sprint(kinds))
		wit := func() any { return msgWitness(&m, nil) }
		if r.Intn(5) == 0 {
			// an encode that the encoder refuses part-way (it must leave nothing behind for the next one)
			bad := m
			switch r.Intn(3) {
			case 0:
				bad.Cid = cid.Undef
			case 1:
				bad.OrigPeer = strings.Repeat("Q", 8193+r.Intn(100))
			default:
				bad.Addrs = append(append([][]byte(nil), m.Addrs...), make([]byte, 2<<20+1))
			}
			var sink bytes.Buffer
			if err := bad.MarshalCBOR(&sink); err == nil {
				c.Inc("encodes_expected_to_be_refused_but_accepted")
			} else {
				c.Inc("refused_encodes_before_a_valid_one")
			}
		}
		c.Guard(sub, i, wit, func() {
			var buf bytes.Buffer
			if err := m.MarshalCBOR(&buf); err != nil {
				if len(m.Cid.Bytes()) > 400 {
					c.Inc("long_cid_refused_by_the_encoder") // outside the encoder's size caps
					return
				}
				c.Fail(sub, i, "cbor-marshal-error", err.Error(), wit())
				return
			}
			enc := buf.Bytes()
			wantHdr := byte(0x83)
			if m.OrigPeer != "" {
				wantHdr = 0x84
			}
			if enc[0] != wantHdr {
				c.Fail(sub, i, "cbor-array-header", fmt.Sprintf("%#x want %#x", enc[0], wantHdr), wit())
			}
			var d message.Message
			if err := d.UnmarshalCBOR(bytes.NewReader(enc)); err != nil {
				c.Fail(sub, i, "cbor-roundtrip-error", err.Error(), wit())
			} else if df := msgDiff(&m, &d); df != "" {
				c.Fail(sub, i, "cbor-roundtrip-differs:"+df, "", wit())
			}
			// decoding into a message value that held another message before gives the same result
			if err := reused.UnmarshalCBOR(bytes.NewReader(enc)); err != nil {
				c.Fail(sub, i, "cbor-roundtrip-error:into-a-used-message", err.Error(), wit())
			} else if df := msgDiff(&m, &reused); df != "" {
				c.Fail(sub, i, "cbor-roundtrip-differs:into-a-used-message:"+df, "", wit())
			}
			// the decoded message owns its bytes: the buffer it was read from (a pubsub message's data, a pooled
			// request buffer) is overwritten and used again afterwards
			{
				var db message.Message
				bb := bytes.NewBuffer(append(make([]byte, 0, len(enc)+64), enc...))
				if err := db.UnmarshalCBOR(bb); err != nil {
					c.Fail(sub, i, "cbor-roundtrip-error:from-a-buffer", err.Error(), wit())
				} else {
					raw := bb.Bytes()[:0]
					raw = raw[:cap(raw)]
					for x := range raw {
						raw[x] ^= 0xa5
					}
					bb.Reset()
					bb.Write(bytes.Repeat([]byte{0x5a}, len(enc)))
					if df := msgDiff(&m, &db); df != "" {
						c.Fail(sub, i, "decoded-message-shares-memory-with-its-input:"+df, "the message changed when the buffer it was decoded from was overwritten", wit())
					}
					c.Inc("decoded_from_a_buffer_that_is_then_overwritten")
				}
				var dj2 message.Message
				if js2, err := json.Marshal(m); err == nil {
					cp := append([]byte(nil), js2...)
					if err := json.Unmarshal(cp, &dj2); err == nil && msgDiff(&m, &dj2) == "" {
						for x := range cp {
							cp[x] = 'x'
						}
						if df := msgDiff(&m, &dj2); df != "" {
							c.Fail(sub, i, "decoded-message-shares-memory-with-its-input:json:"+df, "", wit())
						}
					}
				}
			}
			// the same bytes arriving in pieces (as they do from a network) decode to the same message
			for rk, rd := range map[string]io.Reader{"half": iotest.HalfReader(bytes.NewReader(enc)), "onebyte": iotest.OneByteReader(bytes.NewReader(enc)), "datared": iotest.DataErrReader(bytes.NewReader(enc))} {
				var dp message.Message
				if err := dp.UnmarshalCBOR(rd); err != nil {
					c.Fail(sub, i, "cbor-partial-reads-error:"+rk, err.Error(), wit())
				} else if df := msgDiff(&m, &dp); df != "" {
					c.Fail(sub, i, "cbor-partial-reads-differs:"+rk, df, wit())
				}
			}
			// truncated input must be an error
			if len(enc) > 1 {
				cut := 1 + r.Intn(len(enc)-1)
				var dt message.Message
				if err := dt.UnmarshalCBOR(bytes.NewReader(enc[:cut])); err == nil {
					c.Fail(sub, i, "cbor-truncated-accepted", fmt.Sprintf("cut at %d of %d", cut, len(enc)), wit())
				}
			}
			js, err := json.Marshal(m)
			if err != nil {
				c.Fail(sub, i, "json-marshal-error", err.Error(), wit())
				return
			}
			var dj message.Message
			if err := json.Unmarshal(js, &dj); err != nil {
				c.Fail(sub, i, "json-roundtrip-error", err.Error(), wit())
			} else if df := msgDiff(&m, &dj); df != "" {
				c.Fail(sub, i, "json-roundtrip-differs:"+df, "", wit())
			}
			// GetAddrs: unknown protocols are skipped, valid ones kept in order
			hasRaw := false
			var want []string
			for k, a := range m.Addrs {
				switch kinds[k] {
				case "raw":
					hasRaw = true
				case "valid":
					ma, _ := multiaddr.NewMultiaddrBytes(a)
					want = append(want, ma.String())
				}
			}
			got, err := m.GetAddrs()
			if !hasRaw {
				if err != nil {
					c.Fail(sub, i, "getaddrs-fails-on-unknown-protocol", err.Error(), wit())
				} else if fmt.Sprint(maStrings(got)) != fmt.Sprint(want) && !(len(got) == 0 && len(want) == 0) {
					c.Fail(sub, i, "getaddrs-differs", fmt.Sprintf("got %v want %v", maStrings(got), want), wit())
				}
			}
		})
		c.Eval(2)
		nUnknown := 0
		for _, k := range kinds {
			if k == "unknown-proto" {
				nUnknown++
			}
		}
		if nUnknown > 0 {
			c.Inc("msgs_with_unknown_protocol_addr")
		}
		c.Distinct(sub, fmt.Sprint(len(m.Addrs), m.OrigPeer != "", len(m.ExtraData) > 1000, m.Cid.Version(), nUnknown > 0))
		if c.WantSample(sub) && len(m.Addrs) > 1 && len(m.Addrs) < 4 {
			c.Sample(sub, wit())
		}
	}
	// undefined CID: error, not panic
	if c.Mine(sub, n) {
		c.Cur(sub, n, "undef cid")
		c.Guard(sub, n, nil, func() {
			m := message.Message{Cid: cid.Undef}
			var buf bytes.Buffer
			if err := m.MarshalCBOR(&buf); err == nil {
				var d message.Message
				if err := d.UnmarshalCBOR(bytes.NewReader(buf.Bytes())); err == nil && !d.Cid.Equals(m.Cid) {
					c.Fail(sub, n, "undef-cid-encodes-to-other", "", nil)
				}
			}
		})
		c.Eval(1)
	}
}

// c10PubsubSender: what the pubsub sender publishes is what a subscriber of the topic decodes, message by message, also
// when several messages are sent before the first one is read.
func c10PubsubSender(c *vf.Ctx) {
	const sub = "pubsub-sender"
	if !c.Active(sub) {
		return
	}
	n := c.N(16, 300)
	for i := 0; i < n; i++ {
		if !c.Mine(sub, i) {
			continue
		}
		r := c.Rand(sub, i)
		c.Cur(sub, i, "")
		h, err := newHost()
		if err != nil {
			c.Inconclusive(sub, i, "host-create", err.Error(), nil)
			continue
		}
		topics, cancelPS, err := meshTopics([]host.Host{h}, fmt.Sprintf("/verif/c10/%d/%d", c.Seed, i))
		if err != nil {
			h.Close()
			c.Inconclusive(sub, i, "topic-create", err.Error(), nil)
			continue
		}
		subscr, err := topics[0].Subscribe()
		var extra []byte
		if r.Intn(3) == 0 {
			extra = rbytes(r, 1+r.Intn(30))
		}
		var opts []p2psender.Option
		opts = append(opts, p2psender.WithTopic(topics[0]))
		if extra != nil {
			opts = append(opts, p2psender.WithExtraData(extra))
		}
		snd, err2 := p2psender.New(nil, "", opts...)
		if err != nil || err2 != nil {
			cancelPS()
			h.Close()
			c.Fail(sub, i, "sender-new", fmt.Sprint(err, err2), nil)
			continue
		}
		burst := 2 + r.Intn(5)
		var sent []message.Message
		for k := 0; k < burst; k++ {
			m, _ := c10GenMsg(r, true)
			if err := snd.Send(context.Background(), m); err != nil {
				continue // (beyond the encoder's caps)
			}
			if extra != nil {
				m.ExtraData = extra
			}
			sent = append(sent, m)
		}
		wit := func() any {
			var l []any
			for k := range sent {
				l = append(l, msgWitness(&sent[k], nil))
			}
			return map[string]any{"sent_before_the_first_was_read": l, "sender_extra_hex": hex.EncodeToString(extra)}
		}
		for k := range sent {
			ctx, cancel := context.WithTimeout(context.Background(), 20*time.Second)
			pm, err := subscr.Next(ctx)
			cancel()
			if err != nil {
				c.Fail(sub, i, "published-message-not-received", fmt.Sprintf("message %d of %d: %v", k, len(sent), err), wit())
				break
			}
			var d message.Message
			if err := d.UnmarshalCBOR(bytes.NewReader(pm.Data)); err != nil {
				c.Fail(sub, i, "wire-decode-error:pubsub", fmt.Sprintf("message %d of %d: %v", k, len(sent), err), wit())
				break
			}
			if df := msgDiff(&sent[k], &d); df != "" {
				c.Fail(sub, i, "wire-message-differs:pubsub:"+df, fmt.Sprintf("message %d of %d sent back to back", k, len(sent)), wit())
				break
			}
			c.Inc("pubsub_messages_read_back")
		}
		snd.Close()
		subscr.Cancel()
		cancelPS()
		h.Close()
		c.Eval(len(sent))
		c.Distinct(sub, fmt.Sprint(burst, extra != nil))
	}
}

func c10Senders(c *vf.Ctx) {
	c10PubsubSender(c)
	const sub = "http-sender"
	if !c.Active(sub) {
		return
	}
	var mu sync.Mutex
	var bodies [][]byte
	var ctypes []string
	srv := newMemServer(http.HandlerFunc(func(w http.ResponseWriter, r *http.Request) {
		b, _ := io.ReadAll(r.Body)
		mu.Lock()
		bodies = append(bodies, b)
		ctypes = append(ctypes, r.Header.Get("Content-Type"))
		mu.Unlock()
		w.WriteHeader(http.StatusNoContent)
	}))
	defer srv.Close()
	su, _ := url.Parse(srv.URL)
	n := c.N(2000, 20000)
	for i := 0; i < n; i++ {
		if !c.Mine(sub, i) {
			continue
		}
		r := c.Rand(sub, i)
		pub := AnyIdent(r)
		m, kinds := c10GenMsg(r, true)
		m.OrigPeer = ""
		useJSON := r.Intn(2) == 0
		var extra []byte
		if r.Intn(3) == 0 {
			extra = rbytes(r, 1+r.Intn(30))
		}
		c.Cur(sub, i, fmt.Sprint(kinds, useJSON))
		wit := func() any { return msgWitness(&m, map[string]any{"publisher": pub.ID.String(), "json": useJSON, "sender_extra_hex": hex.EncodeToString(extra)}) }
		c.Guard(sub, i, wit, func() {
			u := *su
			var opts []httpsender.Option
			if extra != nil {
				opts = append(opts, httpsender.WithExtraData(extra))
			}
			s, err := httpsender.New([]*url.URL{&u}, pub.ID, opts...)
			if err != nil {
				c.Fail(sub, i, "sender-new", err.Error(), wit())
				return
			}
			defer s.Close()
			mu.Lock()
			bodies, ctypes = nil, nil
			mu.Unlock()
			if useJSON {
				err = s.SendJson(context.Background(), m)
			} else {
				err = s.Send(context.Background(), m)
			}
			if err != nil && !useJSON && len(m.Cid.Bytes()) > 400 {
				c.Inc("long_cid_refused_by_the_encoder") // outside the encoder's size caps
				return
			}
			if err != nil {
				c.Fail(sub, i, "send-error", err.Error(), wit())
				return
			}
			mu.Lock()
			defer mu.Unlock()
			if len(bodies) != 1 {
				c.Fail(sub, i, "send-request-count", fmt.Sprint(len(bodies)), wit())
				return
			}
			var d message.Message
			if useJSON {
				err = json.Unmarshal(bodies[0], &d)
			} else {
				err = d.UnmarshalCBOR(bytes.NewReader(bodies[0]))
			}
			if err != nil {
				c.Fail(sub, i, "wire-decode-error", err.Error(), wit())
				return
			}
			// expected: same cid; every decodable address with /p2p/<publisher> appended; unknown-protocol ones dropped
			want := message.Message{Cid: m.Cid, ExtraData: m.ExtraData}
			if extra != nil {
				want.ExtraData = extra
			}
			p2p, _ := multiaddr.NewComponent("p2p", pub.ID.String())
			for k, a := range m.Addrs {
				if kinds[k] != "valid" {
					continue
				}
				ma, _ := multiaddr.NewMultiaddrBytes(a)
				want.Addrs = append(want.Addrs, ma.Encapsulate(p2p).Bytes())
			}
			// when every address was skipped, peer.AddrInfoToP2pAddrs yields the bare /p2p/<publisher>
			// address; that is as admissible as sending none
			if len(want.Addrs) == 0 && len(d.Addrs) == 1 && bytes.Equal(d.Addrs[0], p2p.Bytes()) {
				want.Addrs = d.Addrs
			}
			if df := msgDiff(&want, &d); df != "" {
				var got []string
				for _, a := range d.Addrs {
					if ma, err := multiaddr.NewMultiaddrBytes(a); err == nil {
						got = append(got, ma.String())
					} else {
						got = append(got, hex.EncodeToString(a))
					}
				}
				c.Fail(sub, i, "wire-message-differs:"+df, fmt.Sprintf("decoded addrs: %v", got), wit())
			}
		})
		c.Eval(1)
		c.Inc("sent_" + map[bool]string{true: "json", false: "cbor"}[useJSON])
		c.Distinct(sub, fmt.Sprint(len(m.Addrs), useJSON, extra != nil))
	}
}

func c10AllocBound(n int) uint64 { return 4*uint64(n) + 3<<20 }

func c10Hostile(c *vf.Ctx) {
	const sub = "hostile"
	if !c.Active(sub) {
		return
	}
	n := c.N(150000, 5000000)
	for i := 0; i < n; i++ {
		if !c.Mine(sub, i) {
			continue
		}
		r := c.Rand(sub, i)
		m1, _ := c10GenMsg(r, false)
		m2, _ := c10GenMsg(r, false)
		if len(m1.ExtraData) > 200 {
			m1.ExtraData = m1.ExtraData[:r.Intn(200)]
		}
		var b1, b2 bytes.Buffer
		_ = m1.MarshalCBOR(&b1)
		_ = m2.MarshalCBOR(&b2)
		in, kind := vf.Mutate(r, b1.Bytes(), b2.Bytes())
		if r.Intn(6) == 0 {
			var k2 string
			in, k2 = vf.Mutate(r, in, b1.Bytes())
			kind += "+" + k2
		}
		c.Cur(sub, i, kind+" "+hex.EncodeToString(in[:min(len(in), 3000)]))
		wit := func() any { return map[string]any{"input_hex": hex.EncodeToString(in), "mutation": kind} }
		var d message.Message
		var err error
		inCopy := append([]byte(nil), in...)
		alloc := vf.AllocDelta(func() {
			c.Guard(sub, i, wit, func() {
				err = d.UnmarshalCBOR(bytes.NewReader(inCopy))
			})
		})
		c.Eval(1)
		c.Inc("mut_" + kind[:min(len(kind), 20)])
		c.Max("max_alloc_per_case", int64(alloc))
		if alloc > c10AllocBound(len(in)) {
			c.Fail(sub, i, "alloc-beyond-field-caps", fmt.Sprintf("decoding %d bytes allocated %d (bound %d)", len(in), alloc, c10AllocBound(len(in))), wit())
		}
		if err != nil {
			c.Inc("hostile_rejected")
			continue
		}
		c.Inc("hostile_accepted")
		c.Distinct(sub, kind, fmt.Sprint(len(d.Addrs), d.OrigPeer != ""))
		c.Guard(sub, i, wit, func() {
			var buf bytes.Buffer
			if err := d.MarshalCBOR(&buf); err != nil {
				c.Fail(sub, i, "accepted-not-reencodable", err.Error(), wit())
				return
			}
			var d2 message.Message
			if err := d2.UnmarshalCBOR(bytes.NewReader(buf.Bytes())); err != nil {
				c.Fail(sub, i, "reencoding-not-decodable", err.Error(), wit())
			} else if df := msgDiff(&d, &d2); df != "" {
				c.Fail(sub, i, "reencoding-differs:"+df, "", wit())
			}
			// GetAddrs on whatever was decoded: error or list, never panic
			_, _ = d.GetAddrs()
		})
	}
}

// cborHdr writes a CBOR header (major type, value) in its shortest form.
func cborHdr(maj byte, v uint64) []byte {
	m := maj << 5
	switch {
	case v < 24:
		return []byte{m | byte(v)}
	case v < 1<<8:
		return []byte{m | 24, byte(v)}
	case v < 1<<16:
		return []byte{m | 25, byte(v >> 8), byte(v)}
	case v < 1<<32:
		return []byte{m | 26, byte(v >> 24), byte(v >> 16), byte(v >> 8), byte(v)}
	}
	return []byte{m | 27, byte(v >> 56), byte(v >> 48), byte(v >> 40), byte(v >> 32), byte(v >> 24), byte(v >> 16), byte(v >> 8), byte(v)}
}

// c10Crafted: messages assembled by hand whose fields declare lengths at, just over and far over each field's cap,
// with the declared bytes present or missing. Within the caps and complete: decodes and re-encodes to an equal
// message. Over a cap: rejected without allocating for the declared length. Incomplete: rejected.
func c10Crafted(c *vf.Ctx) {
	const sub = "crafted-lengths"
	if !c.Active(sub) {
		return
	}
	const strCap, bytesCap = 8192, 2 << 20
	type fld struct {
		name string
		cap  uint64
	}
	fields := []fld{{"orig-peer", strCap}, {"extra-data", bytesCap}, {"one-address", bytesCap}, {"address-count", strCap}}
	var lens = map[string][]uint64{
		"orig-peer":     {0, 1, 52, strCap - 1, strCap, strCap + 1, strCap + 8, 65536, 1 << 20, bytesCap, bytesCap + 1, 1 << 31, 1 << 40},
		"extra-data":    {0, 1, 300, bytesCap - 1, bytesCap, bytesCap + 1, 1 << 24, 1 << 31, 1 << 40},
		"one-address":   {0, 1, 40, 70000, bytesCap, bytesCap + 1, 1 << 31, 1 << 40},
		"address-count": {0, 1, 3, strCap, strCap + 1, 1 << 20, 1 << 31, 1 << 40},
	}
	idx := 0
	for _, f := range fields {
		for _, L := range lens[f.name] {
			for _, present := range []bool{true, false} {
				i := idx
				idx++
				if !c.Mine(sub, i) {
					continue
				}
				if present && L > bytesCap+1 {
					continue // (the declared bytes cannot be supplied)
				}
				if f.name == "address-count" && present && L > strCap+1 {
					continue
				}
				r := c.Rand(sub, i)
				desc := fmt.Sprintf("field=%s declared-length=%d declared-bytes-present=%v", f.name, L, present)
				c.Cur(sub, i, desc)
				_, _ = c10GenMsg(r, false)
				var in bytes.Buffer
				in.Write(cborHdr(4, 4)) // array of 4
				_ = cbg.WriteCid(&in, randCid(r))
				fill := func(n uint64) {
					if present {
						in.Write(rbytes(r, int(n)))
					} else if n > 0 {
						in.Write(rbytes(r, int(min(n-1, 5))))
					}
				}
				// addresses
				switch f.name {
				case "one-address":
					in.Write(cborHdr(4, 1))
					in.Write(cborHdr(2, L))
					fill(L)
				case "address-count":
					in.Write(cborHdr(4, L))
					if present {
						for k := uint64(0); k < L; k++ {
							in.Write(cborHdr(2, 1))
							in.WriteByte(byte(k))
						}
					}
				default:
					in.Write(cborHdr(4, 0))
				}
				complete := present
				if (f.name == "one-address" || f.name == "address-count") && !present {
					goto decode
				}
				// extra data
				if f.name == "extra-data" {
					in.Write(cborHdr(2, L))
					fill(L)
					if !present {
						goto decode
					}
				} else {
					in.Write(cborHdr(2, 0))
				}
				// orig peer
				if f.name == "orig-peer" {
					in.Write(cborHdr(3, L))
					if present {
						in.Write(bytes.Repeat([]byte{'Q'}, int(L)))
					} else if L > 1 {
						in.WriteString("Q")
					}
				} else {
					in.Write(cborHdr(3, 2))
					in.WriteString("Qm")
				}
			decode:
				input := in.Bytes()
				wit := func() any {
					return map[string]any{"case": desc, "input_bytes": len(input), "input_head_hex": hex.EncodeToString(input[:min(len(input), 120)])}
				}
				var d message.Message
				var err error
				alloc := vf.AllocDelta(func() {
					c.Guard(sub, i, wit, func() { err = d.UnmarshalCBOR(bytes.NewReader(input)) })
				})
				c.Eval(1)
				c.Inc("crafted_cases")
				within := L <= f.cap
				switch {
				case !within:
					if err == nil {
						c.Fail(sub, i, "length-over-field-cap-accepted:"+f.name, desc, wit())
					}
					// nothing may be allocated for a length that is over the cap
					if alloc > 256<<10+4*uint64(len(input)) {
						c.Fail(sub, i, "alloc-beyond-field-caps:"+f.name, fmt.Sprintf("%s: decoding %d bytes allocated %d", desc, len(input), alloc), wit())
					}
					c.Inc("crafted_over_cap")
				case !complete:
					if err == nil && L > 0 {
						c.Fail(sub, i, "incomplete-input-accepted:"+f.name, desc, wit())
					}
					perUnit := uint64(1)
					if f.name == "address-count" {
						perUnit = 24 // one slice header per declared address
					}
					if alloc > 64<<10+4*uint64(len(input))+2*f.cap*perUnit {
						c.Fail(sub, i, "alloc-beyond-field-caps:"+f.name, fmt.Sprintf("%s: decoding %d bytes allocated %d", desc, len(input), alloc), wit())
					}
				default:
					if err != nil {
						c.Fail(sub, i, "message-within-caps-rejected:"+f.name, err.Error(), wit())
						continue
					}
					c.Inc("crafted_within_caps_decoded")
				}
				if err != nil {
					continue
				}
				c.Guard(sub, i, wit, func() {
					var buf bytes.Buffer
					if err := d.MarshalCBOR(&buf); err != nil {
						c.Fail(sub, i, "accepted-not-reencodable:"+f.name, err.Error(), wit())
						return
					}
					var d2 message.Message
					if err := d2.UnmarshalCBOR(bytes.NewReader(buf.Bytes())); err != nil {
						c.Fail(sub, i, "reencoding-not-decodable:"+f.name, err.Error(), wit())
					} else if df := msgDiff(&d, &d2); df != "" {
						c.Fail(sub, i, "reencoding-differs:"+df, "", wit())
					}
					_, _ = d.GetAddrs()
				})
				c.Distinct(sub, desc)
			}
		}
	}
}
