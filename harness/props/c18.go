package props

import (
	"bytes"
	"encoding/hex"
	"encoding/json"
	"fmt"
	"github.com/libp2p/go-libp2p/core/crypto"
	"math/rand"
	"sync"
	"sync/atomic"
	"time"

	"github.com/ipni/go-libipni/ingest/model"
	"github.com/libp2p/go-libp2p/core/peer"
	"github.com/libp2p/go-libp2p/core/record"
	"github.com/multiformats/go-multiaddr"
	"github.com/multiformats/go-multihash"

	"verif/harness/vf"
)

func init() { Registry["C18"] = runC18 }

type c18Req struct {
	mh    multihash.Multihash
	ctx   []byte
	md    []byte
	addrs []string
}

func c18Gen(r *rand.Rand) c18Req {
	mh, _ := multihash.Sum(rbytes(r, 1+r.Intn(40)), []uint64{multihash.SHA2_256, multihash.SHA2_512, multihash.IDENTITY}[r.Intn(3)], -1)
	q := c18Req{mh: mh, ctx: rbytes(r, pickLen(r, 64, 0, 1, 64)), md: rbytes(r, pickLen(r, 200, 0, 1, 200))}
	naddr := 1 + r.Intn(3)
	if r.Intn(6) == 0 {
		// the largest requests the schema admits: full-length context ID and metadata, a long address list
		q.ctx, q.md, naddr = rbytes(r, 64), rbytes(r, 1024-r.Intn(80)), 1+r.Intn(12)
	}
	for k := naddr; k > 0; k-- {
		a := fmt.Sprintf("/ip4/%d.%d.%d.%d/tcp/%d", 1+r.Intn(200), r.Intn(256), r.Intn(256), r.Intn(256), 1+r.Intn(65535))
		// (the kinds of address providers register: HTTP endpoints, websockets, QUIC, DNS names, with a peer ID)
		switch r.Intn(8) {
		case 0:
			a += "/http"
		case 1:
			a += "/https"
		case 2:
			a += "/ws"
		case 3:
			a = fmt.Sprintf("/ip4/%d.%d.%d.%d/udp/%d/quic-v1", 1+r.Intn(200), r.Intn(256), r.Intn(256), r.Intn(256), 1+r.Intn(65535))
		case 4:
			a = fmt.Sprintf("/dns4/provider%d.example.net/tcp/443/https", r.Intn(100))
		case 5:
			a += "/p2p/12D3KooWHHzSeKaY8xuZVzkLbKFfvNgPPeKhFBGrMbNzbm5akpqu"
		}
		q.addrs = append(q.addrs, a)
	}
	return q
}

// a record type with the ingest payload type but a foreign domain
type foreignDomainIngest struct{ model.IngestRequest }

func (f *foreignDomainIngest) Domain() string { return "some-other-domain" }

// the ingest payload sealed for the peer-record domain, and a peer record sealed for the ingest domain
type ingestInPeerDomain struct{ model.IngestRequest }

func (f *ingestInPeerDomain) Domain() string { return peer.PeerRecordEnvelopeDomain }

type peerRecordInIngestDomain struct{ *peer.PeerRecord }

func (f *peerRecordInIngestDomain) Domain() string { return model.IngestRequestEnvelopeDomain }

// record types with the right domain but another payload type
type foreignTypeIngest struct{ model.IngestRequest }

func (f *foreignTypeIngest) Codec() []byte { return []byte("not-an-ingest-request") }

type foreignTypeRegister struct{ *peer.PeerRecord }

func (f *foreignTypeRegister) Codec() []byte { return []byte("not-a-peer-record") }

func runC18(c *vf.Ctx) {
	c18Matrix(c)
	c18Alter(c)
	c18Crafted(c)
	c18Concurrent(c)
}

// rawIngest seals an arbitrary payload as an ingest request (right domain, right payload type).
type rawIngest struct{ payload []byte }

func (r *rawIngest) Domain() string                 { return model.IngestRequestEnvelopeDomain }
func (r *rawIngest) Codec() []byte                  { return model.IngestRequestEnvelopePayloadType }
func (r *rawIngest) MarshalRecord() ([]byte, error) { return r.payload, nil }
func (r *rawIngest) UnmarshalRecord(b []byte) error { r.payload = b; return nil }

// c18Crafted: payloads written by hand and sealed by an attacker's key, in which the provider is named more than once
// (JSON objects with a repeated key, or keys that differ in case only): whatever a reader makes of them, a request it
// returns names its signer.
func c18Crafted(c *vf.Ctx) {
	const sub = "crafted-payloads"
	if !c.Active(sub) {
		return
	}
	ids := allIdents()
	n := c.N(400, 8000)
	for i := 0; i < n; i++ {
		if !c.Mine(sub, i) {
			continue
		}
		r := c.Rand(sub, i)
		attacker := ids[r.Intn(len(ids))]
		victim := ids[r.Intn(len(ids))]
		if victim.ID == attacker.ID {
			continue
		}
		q := c18Gen(r)
		mhJ, _ := json.Marshal(q.mh)
		ctxJ, _ := json.Marshal(q.ctx)
		mdJ, _ := json.Marshal(q.md)
		adJ, _ := json.Marshal(q.addrs)
		a, v := fmt.Sprintf("%q", attacker.ID.String()), fmt.Sprintf("%q", victim.ID.String())
		rest := fmt.Sprintf(`"Multihash":%s,"ContextID":%s,"Metadata":%s,"Addrs":%s,"Seq":7`, mhJ, ctxJ, mdJ, adJ)
		forms := []string{
			`{"ProviderID":` + a + `,` + rest + `,"ProviderID":` + v + `}`,
			`{"ProviderID":` + v + `,` + rest + `,"ProviderID":` + a + `}`,
			`{"ProviderID":` + a + `,` + rest + `,"providerid":` + v + `}`,
			`{"providerid":` + v + `,` + rest + `,"ProviderID":` + a + `}`,
			`{"PROVIDERID":` + a + `,"ProviderID":` + v + `,` + rest + `}`,
			`{` + rest + `,"ProviderID":` + a + `,"ProviderId":` + v + `}`,
			`{"ProviderID":` + v + `,` + rest + `}`,
		}
		for fi, payload := range forms {
			c.Cur(sub, i, fmt.Sprintf("form %d signed by %s", fi, attacker.Type))
			env, err := record.Seal(&rawIngest{payload: []byte(payload)}, attacker.Priv)
			if err != nil {
				continue
			}
			data, _ := env.Marshal()
			wit := func() any {
				return map[string]any{"payload": payload, "sealed_by": attacker.ID.String(), "names_also": victim.ID.String()}
			}
			c.Guard(sub, i, wit, func() {
				got, err := model.ReadIngestRequest(data)
				if err == nil && got != nil && got.ProviderID != attacker.ID {
					c.Fail(sub, i, "ingest-foreign-signer-accepted:crafted-payload", fmt.Sprintf("form %d: the returned request names %s, it was sealed by %s", fi, got.ProviderID, attacker.ID), wit())
				}
				if err == nil {
					c.Inc("crafted_payloads_accepted_naming_their_signer")
				} else {
					c.Inc("crafted_payloads_rejected")
				}
			})
			c.Eval(1)
		}
		c.Distinct(sub, attacker.Type, victim.Type)
	}
}

// slowSigner yields before it signs: other goroutines get to run between the moment a request has been serialized and
// the moment its envelope is finished
type slowSigner struct{ crypto.PrivKey }

func (k slowSigner) Sign(b []byte) ([]byte, error) {
	runtimeGosched()
	time.Sleep(20 * time.Microsecond)
	return k.PrivKey.Sign(b)
}

// c18Concurrent: many goroutines build requests at the same time; each must read back as built
func c18Concurrent(c *vf.Ctx) {
	const sub = "concurrent-construction"
	if !c.Active(sub) {
		return
	}
	ids := allIdents()
	n := c.N(40, 800)
	for i := 0; i < n; i++ {
		if !c.Mine(sub, i) {
			continue
		}
		r := c.Rand(sub, i)
		ng := 4 + r.Intn(12)
		per := 20 + r.Intn(30)
		c.Cur(sub, i, fmt.Sprintf("%d goroutines x %d requests", ng, per))
		var wg sync.WaitGroup
		var bad atomic.Int64
		var first atomic.Pointer[string]
		for g := 0; g < ng; g++ {
			wg.Add(1)
			id := ids[r.Intn(len(ids))]
			rr := rand.New(rand.NewSource(r.Int63()))
			go func(id Ident, rr *rand.Rand) {
				defer wg.Done()
				for k := 0; k < per; k++ {
					q := c18Gen(rr)
					data, err := model.MakeIngestRequest(id.ID, slowSigner{id.Priv}, q.mh, q.ctx, q.md, q.addrs)
					if err != nil {
						continue
					}
					got, err := model.ReadIngestRequest(data)
					why := ""
					switch {
					case err != nil:
						why = "own request rejected: " + err.Error()
					case got.ProviderID != id.ID || !bytes.Equal(got.ContextID, q.ctx) || !bytes.Equal(got.Metadata, q.md) || !bytes.Equal(got.Multihash, q.mh) || fmt.Sprint(got.Addrs) != fmt.Sprint(q.addrs):
						why = fmt.Sprintf("fields differ: built ctx=%x, read back ctx=%x provider=%s", q.ctx, got.ContextID, got.ProviderID)
					}
					if why != "" {
						bad.Add(1)
						first.CompareAndSwap(nil, &why)
					}
				}
			}(id, rr)
		}
		wg.Wait()
		if bad.Load() > 0 {
			c.Fail(sub, i, "own-ingest-request-not-read-back-as-built:concurrent-construction", fmt.Sprintf("%d of %d requests: %s", bad.Load(), ng*per, *first.Load()), nil)
		}
		c.Eval(1)
		c.Add("requests_built_concurrently", int64(ng*per))
		c.Distinct(sub, fmt.Sprint(ng))
	}
}

// every (signing key, named provider) pair; constructor round trip on the diagonal
func c18Matrix(c *vf.Ctx) {
	const sub = "signer-matrix"
	if !c.Active(sub) {
		return
	}
	var ids []Ident
	for _, t := range KeyTypes {
		ids = append(ids, Keys()[t]...)
	}
	reps := c.N(6, 120)
	idx := 0
	for rep := 0; rep < reps; rep++ {
		for a := range ids {
			for b := range ids {
				i := idx
				idx++
				if !c.Mine(sub, i) {
					continue
				}
				r := c.Rand(sub, i)
				signer, named := ids[a], ids[b]
				q := c18Gen(r)
				c.Cur(sub, i, fmt.Sprintf("signer=%s named=%s", signer, named))
				wit := func() any {
					return map[string]any{"signer": signer.String(), "named_provider": named.String(), "mh": hex.EncodeToString(q.mh), "ctx": hex.EncodeToString(q.ctx), "addrs": q.addrs}
				}
				c.Guard(sub, i, wit, func() {
					// ingest
					data, err := model.MakeIngestRequest(named.ID, signer.Priv, q.mh, q.ctx, q.md, q.addrs)
					if err != nil {
						c.Fail(sub, i, "make-ingest-error", err.Error(), wit())
						return
					}
					req, err := model.ReadIngestRequest(data)
					if a == b {
						if err != nil {
							c.Fail(sub, i, "own-ingest-request-rejected:"+signer.Type, err.Error(), wit())
						} else if req.ProviderID != named.ID || !bytes.Equal(req.Multihash, q.mh) || !bytes.Equal(req.ContextID, q.ctx) ||
							!bytes.Equal(req.Metadata, q.md) || fmt.Sprint(req.Addrs) != fmt.Sprint(q.addrs) || req.Seq == 0 {
							c.Fail(sub, i, "ingest-fields-differ", fmt.Sprintf("%+v", req), wit())
						}
					} else if err == nil {
						c.Fail(sub, i, "ingest-foreign-signer-accepted", fmt.Sprintf("request naming %s signed by %s was accepted", named.ID, signer.ID), wit())
					}
					// register
					data, err = model.MakeRegisterRequest(named.ID, signer.Priv, q.addrs)
					if err != nil {
						c.Fail(sub, i, "make-register-error", err.Error(), wit())
						return
					}
					rec, err := model.ReadRegisterRequest(data)
					if a == b {
						if err != nil {
							c.Fail(sub, i, "own-register-request-rejected:"+signer.Type, err.Error(), wit())
						} else if rec.PeerID != named.ID || fmt.Sprint(maStrings(rec.Addrs)) != fmt.Sprint(q.addrs) {
							c.Fail(sub, i, "register-fields-differ", fmt.Sprintf("%+v", rec), wit())
						}
					} else if err == nil {
						c.Fail(sub, i, "register-foreign-signer-accepted", fmt.Sprintf("record naming %s signed by %s was accepted", named.ID, signer.ID), wit())
					}
				})
				c.Eval(2)
				c.Distinct(sub, signer.Type, named.Type, fmt.Sprint(a == b))
				if a != b {
					c.Inc("foreign_signer_pairs")
				} else {
					c.Inc("own_signer_pairs")
				}
				if c.WantSample(sub) && a != b {
					c.Sample(sub, wit())
				}
			}
		}
	}
}

func c18Alter(c *vf.Ctx) {
	const sub = "alterations"
	if !c.Active(sub) {
		return
	}
	n := c.N(2000, 50000)
	for i := 0; i < n; i++ {
		if !c.Mine(sub, i) {
			continue
		}
		r := c.Rand(sub, i)
		id := AnyIdent(r)
		q := c18Gen(r)
		c.Cur(sub, i, id.String())
		ing, err1 := model.MakeIngestRequest(id.ID, id.Priv, q.mh, q.ctx, q.md, q.addrs)
		reg, err2 := model.MakeRegisterRequest(id.ID, id.Priv, q.addrs)
		if err1 != nil || err2 != nil {
			c.Fail(sub, i, "make-error", fmt.Sprint(err1, err2), nil)
			continue
		}
		type target struct {
			name string
			data []byte
			read func([]byte) error
		}
		targets := []target{
			{"ingest", ing, func(b []byte) error { _, e := model.ReadIngestRequest(b); return e }},
			{"register", reg, func(b []byte) error { _, e := model.ReadRegisterRequest(b); return e }},
		}
		for _, t := range targets {
			// the genuine request is read first (a server sees it before any replayed or altered copy)
			if err := t.read(t.data); err != nil {
				c.Fail(sub, i, "own-"+t.name+"-request-rejected:"+id.Type, err.Error(), nil)
			}
			// a flip inside each sealed field, several positions
			for _, f := range []string{"public_key", "payload_type", "payload", "signature"} {
				for k := 0; k < 6; k++ {
					alt, pos, ok := alterInField(r, t.data, f)
					if !ok {
						c.Fail(sub, i, "harness-field-not-found", f, nil)
						break
					}
					if sameEnvelope(alt, t.data) {
						c.Inc("semantically_identical_skipped")
						continue
					}
					w := func() any {
						return map[string]any{"request": t.name, "field": f, "byte": pos, "keytype": id.Type, "altered_hex": hex.EncodeToString(alt)}
					}
					c.Guard(sub, i, w, func() {
						if err := t.read(alt); err == nil {
							c.Fail(sub, i, "altered-"+f+"-accepted:"+t.name, fmt.Sprintf("flip at byte %d (key type %s)", pos, id.Type), w())
						}
					})
					c.Eval(1)
					c.Distinct(sub, t.name, f, id.Type)
					c.Inc("alter_" + f)
				}
			}
			// any byte of the whole encoding
			for k := 0; k < 12; k++ {
				alt := append([]byte(nil), t.data...)
				pos := r.Intn(len(alt))
				alt[pos] ^= 1 << uint(r.Intn(8))
				if sameEnvelope(alt, t.data) {
					c.Inc("semantically_identical_skipped")
					continue
				}
				w := func() any {
					return map[string]any{"request": t.name, "byte": pos, "keytype": id.Type, "altered_hex": hex.EncodeToString(alt)}
				}
				c.Guard(sub, i, w, func() {
					if err := t.read(alt); err == nil {
						c.Fail(sub, i, "altered-byte-accepted:"+t.name, fmt.Sprintf("flip at byte %d of %d", pos, len(alt)), w())
					}
				})
				c.Eval(1)
			}
			// truncations and random garbage never panic
			for k := 0; k < 6; k++ {
				alt, _ := vf.Mutate(r, t.data, ing)
				c.Guard(sub, i, func() any { return map[string]any{"request": t.name, "input_hex": hex.EncodeToString(alt)} }, func() {
					if err := t.read(alt); err == nil && !sameEnvelope(alt, t.data) {
						// accepted mutant: must still be an envelope signed by the provider it names
						c.Inc("mutant_accepted")
					}
				})
				c.Eval(1)
			}
		}
		// cross-feeding: ingest bytes to the register reader and vice versa
		wx := func() any {
			return map[string]any{"keytype": id.Type, "ingest_hex": hex.EncodeToString(ing), "register_hex": hex.EncodeToString(reg)}
		}
		c.Guard(sub, i, wx, func() {
			if _, err := model.ReadRegisterRequest(ing); err == nil {
				c.Fail(sub, i, "ingest-accepted-as-register", "", wx())
			}
			if _, err := model.ReadIngestRequest(reg); err == nil {
				c.Fail(sub, i, "register-accepted-as-ingest", "", wx())
			}
		})
		// same payload type, foreign domain
		c.Guard(sub, i, wx, func() {
			fr := &foreignDomainIngest{model.IngestRequest{Multihash: q.mh, ProviderID: id.ID, ContextID: q.ctx, Metadata: q.md, Addrs: q.addrs, Seq: 1}}
			env, err := record.Seal(fr, id.Priv)
			if err != nil {
				c.Fail(sub, i, "harness-seal", err.Error(), nil)
				return
			}
			b, _ := env.Marshal()
			if _, err := model.ReadIngestRequest(b); err == nil {
				c.Fail(sub, i, "foreign-domain-accepted", "", wx())
			}
			// each request type sealed for the OTHER request's domain
			xi := &ingestInPeerDomain{model.IngestRequest{Multihash: q.mh, ProviderID: id.ID, ContextID: q.ctx, Metadata: q.md, Addrs: q.addrs, Seq: 1}}
			if envx, err := record.Seal(xi, id.Priv); err == nil {
				bx, _ := envx.Marshal()
				if _, err := model.ReadIngestRequest(bx); err == nil {
					c.Fail(sub, i, "other-request-domain-accepted:ingest", "an ingest request sealed for the peer-record domain was accepted", wx())
				}
				if _, err := model.ReadRegisterRequest(bx); err == nil {
					c.Fail(sub, i, "ingest-accepted-as-register", "", wx())
				}
			}
			prx := peer.NewPeerRecord()
			prx.PeerID = id.ID
			ax, _ := multiaddr.NewMultiaddr(q.addrs[0])
			prx.Addrs = []multiaddr.Multiaddr{ax}
			if envx, err := record.Seal(&peerRecordInIngestDomain{prx}, id.Priv); err == nil {
				bx, _ := envx.Marshal()
				if _, err := model.ReadRegisterRequest(bx); err == nil {
					c.Fail(sub, i, "other-request-domain-accepted:register", "a register request sealed for the ingest domain was accepted", wx())
				}
				if _, err := model.ReadIngestRequest(bx); err == nil {
					c.Fail(sub, i, "register-accepted-as-ingest", "", wx())
				}
			}
			// right domain, right signer, payload that parses as the request, but another payload type
			ft := &foreignTypeIngest{model.IngestRequest{Multihash: q.mh, ProviderID: id.ID, ContextID: q.ctx, Metadata: q.md, Addrs: q.addrs, Seq: 1}}
			if envt, err := record.Seal(ft, id.Priv); err == nil {
				bt, _ := envt.Marshal()
				if _, err := model.ReadIngestRequest(bt); err == nil {
					c.Fail(sub, i, "foreign-payload-type-accepted:ingest", "", wx())
				}
			} else {
				c.Fail(sub, i, "harness-seal", err.Error(), nil)
			}
			prt := peer.NewPeerRecord()
			prt.PeerID = id.ID
			a0, _ := multiaddr.NewMultiaddr(q.addrs[0])
			prt.Addrs = []multiaddr.Multiaddr{a0}
			if envt, err := record.Seal(&foreignTypeRegister{prt}, id.Priv); err == nil {
				bt, _ := envt.Marshal()
				if _, err := model.ReadRegisterRequest(bt); err == nil {
					c.Fail(sub, i, "foreign-payload-type-accepted:register", "", wx())
				}
			} else {
				c.Fail(sub, i, "harness-seal", err.Error(), nil)
			}
			// a peer record sealed by the provider but naming another peer in the record
			other := AnyIdent(r)
			if other.ID != id.ID {
				pr := peer.NewPeerRecord()
				pr.PeerID = other.ID
				a, _ := multiaddr.NewMultiaddr(q.addrs[0])
				pr.Addrs = []multiaddr.Multiaddr{a}
				env2, _ := record.Seal(pr, id.Priv)
				b2, _ := env2.Marshal()
				if _, err := model.ReadRegisterRequest(b2); err == nil {
					c.Fail(sub, i, "register-foreign-signer-accepted", "", wx())
				}
			}
		})
		c.Eval(4)
		c.Inc("cross_fed")
		if c.WantSample(sub) {
			c.Sample(sub, map[string]any{"keytype": id.Type, "ingest_len": len(ing), "register_len": len(reg), "fields": envelopeFieldSpans(ing)})
		}
	}
}
