// vworker runs one shard of one property monitor against the real library.
package main

import (
	"encoding/json"
	"flag"
	"fmt"
	"os"
	"strconv"
	"strings"

	"verif/harness/props"
	"verif/harness/vf"
)

func main() {
	tier := flag.String("tier", "quick", "quick|thorough")
	seed := flag.Int64("seed", 1, "PRNG seed")
	shard := flag.String("shard", "0/1", "i/N")
	out := flag.String("out", "", "output directory")
	replay := flag.String("replay", "", "replay file")
	only := flag.String("only", "", "restrict to one sub-check (debugging)")
	flag.Parse()
	if flag.NArg() != 1 || *out == "" {
		fmt.Fprintln(os.Stderr, "usage: vworker [flags] <property>")
		os.Exit(64)
	}
	prop := flag.Arg(0)
	run, ok := props.Registry[prop]
	if !ok {
		fmt.Fprintln(os.Stderr, "unknown property", prop)
		os.Exit(64)
	}
	parts := strings.Split(*shard, "/")
	si, _ := strconv.Atoi(parts[0])
	sn, _ := strconv.Atoi(parts[1])
	if sn < 1 {
		sn = 1
	}
	c, err := vf.New(prop, *tier, *seed, si, sn, *out)
	if err != nil {
		fmt.Fprintln(os.Stderr, err)
		os.Exit(70)
	}
	if *replay != "" {
		b, err := os.ReadFile(*replay)
		if err != nil {
			fmt.Fprintln(os.Stderr, err)
			os.Exit(66)
		}
		var r struct {
			Sub     string `json:"sub"`
			Idx     int64  `json:"idx"`
			Seed    int64  `json:"seed"`
			Tier    string `json:"tier"`
			Shard   int    `json:"shard"`
			NShards int    `json:"nshards"`
		}
		if err := json.Unmarshal(b, &r); err != nil {
			fmt.Fprintln(os.Stderr, err)
			os.Exit(66)
		}
		c.ReplaySub, c.ReplayIdx, c.Seed, c.Tier = r.Sub, r.Idx, r.Seed, r.Tier
		c.Shard, c.NShards = r.Shard, r.NShards
		c.Verbose = true
	} else if *only != "" {
		c.OnlySub = *only
	}
	run(c)
	c.Finish()
}
